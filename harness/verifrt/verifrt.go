// Package verifrt is the harness API. Under the symbolic engine every method of H is
// intercepted (the bodies below never run); compiled natively the same harness replays one
// recorded assignment (VERIF_REPLAY=<file.json>) against the real build.
package verifrt

import (
	"encoding/hex"
	"encoding/json"
	"fmt"
	"math"
	"os"
	"path/filepath"
	"runtime"
	"sort"
	"sync"
	"syscall"

	"github.com/hydraide/hydraide/app/verifrt/vos"
)

type ReplayInput struct {
	Fn   string `json:"fn"`
	Name string `json:"name"`
	Val  uint64 `json:"val"`
	Hex  string `json:"hex,omitempty"`
}

type Replay struct {
	Harness string            `json:"harness"`
	Label   string            `json:"label"`
	Kind    string            `json:"kind"`
	Inputs  []ReplayInput     `json:"inputs"`
	Params  map[string]int    `json:"params,omitempty"`
	Extra   map[string]any    `json:"extra,omitempty"`
	Files   map[string]string `json:"files,omitempty"`
}

type H struct {
	mu       sync.Mutex
	rp       Replay
	pos      int
	Failed   []string
	Covered  []string
	Observed []string
	tmp      string
	snaps    map[string][][]byte
	wg       sync.WaitGroup
	quiesce  []func()
	clockPos int
}

func NewNative(path string) (*H, error) {
	h := &H{snaps: map[string][][]byte{}}
	b, err := os.ReadFile(path)
	if err != nil {
		return nil, err
	}
	if err := json.Unmarshal(b, &h.rp); err != nil {
		return nil, err
	}
	return h, nil
}

func (h *H) next(fn, name string) ReplayInput {
	h.mu.Lock()
	defer h.mu.Unlock()
	for h.pos < len(h.rp.Inputs) {
		in := h.rp.Inputs[h.pos]
		h.pos++
		if in.Fn == "Clock" || in.Fn == "CrashK" || in.Fn == "CrashTorn" {
			continue // engine-side environment inputs
		}
		if in.Name != name {
			panic(fmt.Sprintf("verifrt: replay mismatch: harness asks %s(%q), recording has %s(%q)", fn, name, in.Fn, in.Name))
		}
		return in
	}
	panic(fmt.Sprintf("verifrt: replay exhausted at %s(%q)", fn, name))
}

func (h *H) Int64(name string) int64     { return int64(h.next("Int64", name).Val) }
func (h *H) Int(name string) int         { return int(int64(h.next("Int", name).Val)) }
func (h *H) Uint64(name string) uint64   { return h.next("Uint64", name).Val }
func (h *H) Int32(name string) int32     { return int32(h.next("Int32", name).Val) }
func (h *H) Uint32(name string) uint32   { return uint32(h.next("Uint32", name).Val) }
func (h *H) Int16(name string) int16     { return int16(h.next("Int16", name).Val) }
func (h *H) Uint16(name string) uint16   { return uint16(h.next("Uint16", name).Val) }
func (h *H) Int8(name string) int8       { return int8(h.next("Int8", name).Val) }
func (h *H) Uint8(name string) uint8     { return uint8(h.next("Uint8", name).Val) }
func (h *H) Bool(name string) bool       { return h.next("Bool", name).Val != 0 }
func (h *H) Float64(name string) float64 { return math.Float64frombits(h.next("Float64", name).Val) }
func (h *H) Float32(name string) float32 {
	return math.Float32frombits(uint32(h.next("Float32", name).Val))
}
func (h *H) IntRange(name string, lo, hi int) int { return int(int64(h.next("IntRange", name).Val)) }
func (h *H) Len(name string, lo, hi int) int      { return int(h.next("Len", name).Val) }
func (h *H) Choose(name string, n int) int        { return int(h.next("Choose", name).Val) }
func (h *H) Bytes(name string, n int) []byte {
	b, err := hex.DecodeString(h.next("Bytes", name).Hex)
	if err != nil || len(b) != n {
		panic(fmt.Sprintf("verifrt: Bytes(%q,%d): recorded %d bytes", name, n, len(b)))
	}
	return b
}
func (h *H) String(name string, n int) string { return string(h.Bytes(name, n)) }

func (h *H) Assume(c bool) {
	if !c {
		panic("verifrt: assumption false under replayed inputs")
	}
}
func (h *H) Assert(c bool, label string) {
	if !c {
		h.mu.Lock()
		h.Failed = append(h.Failed, label)
		h.mu.Unlock()
	}
}
func (h *H) Cover(label string) {
	h.mu.Lock()
	h.Covered = append(h.Covered, label)
	h.mu.Unlock()
}
func (h *H) Known(id, prefix string, cond bool) {}
func (h *H) ClearKnown()                         {}
func (h *H) Observe(key string, v any) {
	h.mu.Lock()
	h.Observed = append(h.Observed, fmt.Sprintf("%s=%s", key, fmtObs(v)))
	h.mu.Unlock()
}

func fmtObs(v any) string {
	switch x := v.(type) {
	case bool:
		if x {
			return "1"
		}
		return "0"
	case int:
		return fmt.Sprint(uint64(x))
	case int64:
		return fmt.Sprint(uint64(x))
	case int32:
		return fmt.Sprint(uint32(x))
	case int16:
		return fmt.Sprint(uint16(x))
	case int8:
		return fmt.Sprint(uint8(x))
	case uint, uint8, uint16, uint32, uint64:
		return fmt.Sprint(x)
	case float64:
		return fmt.Sprint(math.Float64bits(x))
	case float32:
		return fmt.Sprint(math.Float32bits(x))
	case string:
		return fmt.Sprintf("%q", x)
	}
	return fmt.Sprint(v)
}

func (h *H) Param(name string, dflt int) int {
	if v, ok := h.rp.Params[name]; ok {
		return v
	}
	return dflt
}
func (h *H) Native() bool            { return true }
func (h *H) Concrete(x int) int      { return x }
func (h *H) ConcreteBool(b bool) bool { return b }
func (h *H) Go(name string, f func()) {
	h.wg.Add(1)
	go func() { defer h.wg.Done(); f() }()
}
func (h *H) Daemon()                  {}
func (h *H) Yield()                   {}
func (h *H) NoPreempt(on bool)        {}
func (h *H) AtQuiescence(f func())    { h.quiesce = append(h.quiesce, f) }
func (h *H) MapOrderNondet(on bool)   {}

// BackgroundLowPriority: in the engine, goroutines started by the code under test (and timers)
// run only when no harness thread can run (sequential harnesses); no effect natively.
func (h *H) BackgroundLowPriority(on bool) {}
func (h *H) Stub(callee string, f any) {}
func (h *H) Logf(format string, a ...any) { fmt.Fprintf(os.Stderr, format+"\n", a...) }

// ---- file system ----

func (h *H) TempDir() string {
	if h.tmp == "" {
		d, err := os.MkdirTemp("", "verifrt")
		if err != nil {
			panic(err)
		}
		h.tmp = d
	}
	return h.tmp
}

// Checkpoint marks a harness-level step boundary (native: snapshots nothing by itself).
func (h *H) Checkpoint() {}

func (h *H) FileBytes(path string) []byte {
	b, err := os.ReadFile(path)
	if err != nil {
		return nil
	}
	return b
}
func (h *H) FileExists(path string) bool {
	fi, err := os.Stat(path)
	return err == nil && !fi.IsDir()
}
func (h *H) PutFile(path string, data []byte) {
	os.MkdirAll(filepath.Dir(path), 0o755)
	if err := os.WriteFile(path, data, 0o644); err != nil {
		panic(err)
	}
	p := filepath.Clean(path)
	vos.LogOp(vos.Op{Kind: "create", Path: p})
	vos.LogOp(vos.Op{Kind: "write", Path: p, Off: 0, Data: append([]byte(nil), data...)})
	vos.LogOp(vos.Op{Kind: "sync", Path: p})
}
func (h *H) RemoveFile(path string) {
	if os.Remove(path) == nil {
		vos.LogOp(vos.Op{Kind: "remove", Path: filepath.Clean(path)})
	}
}
func (h *H) ListFiles(dir string) []string {
	var out []string
	filepath.Walk(dir, func(p string, fi os.FileInfo, err error) error {
		if err == nil && !fi.IsDir() {
			out = append(out, p)
		}
		return nil
	})
	sort.Strings(out)
	return out
}

// DiskLimit makes writes beyond n bytes fail like a full disk (RLIMIT_FSIZE; SIGXFSZ ignored).
func (h *H) DiskLimit(path string, n int) {
	ignoreXFSZ()
	lim := syscall.Rlimit{Cur: uint64(n), Max: math.MaxUint64}
	var old syscall.Rlimit
	syscall.Getrlimit(syscall.RLIMIT_FSIZE, &old)
	lim.Max = old.Max
	if err := syscall.Setrlimit(syscall.RLIMIT_FSIZE, &lim); err != nil {
		panic(err)
	}
}
func (h *H) DiskClear(path string) {
	var old syscall.Rlimit
	syscall.Getrlimit(syscall.RLIMIT_FSIZE, &old)
	old.Cur = old.Max
	syscall.Setrlimit(syscall.RLIMIT_FSIZE, &old)
}
// FailNext works natively only in packages compiled with the vos shim (HarnessDef.OSSwap).
func (h *H) FailNext(kind string, n int) { vos.FailNext(kind, n) }
func (h *H) FSOps() int                  { return 0 }

// CrashImage natively: the image bytes computed by the engine cannot be used (CRC and
// compression are modelled), so the native harness reconstructs it from the recorded
// description in Extra["crashPlan"] using snapshots; see crash.go.
func (h *H) CrashImage(path string) bool { return h.nativeCrash(path) }

// CrashImageAnywhere: like CrashImage, but the crash point ranges over the whole operation log.
func (h *H) CrashImageAnywhere(path string) bool { return h.nativeCrash(path) }

// Finish runs quiescence callbacks and prints the result record.
func (h *H) Finish() {
	h.wg.Wait()
	for _, f := range h.quiesce {
		f()
	}
	var ms runtime.MemStats
	runtime.ReadMemStats(&ms)
	out := map[string]any{"failed": h.Failed, "covered": h.Covered, "observed": h.Observed, "total_alloc": ms.TotalAlloc}
	b, _ := json.Marshal(out)
	fmt.Println("VERIFRT-RESULT " + string(b))
	if h.tmp != "" {
		os.RemoveAll(h.tmp)
	}
}
