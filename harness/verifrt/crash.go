package verifrt

import (
	"os"
	"os/signal"
	"syscall"
)

func ignoreXFSZ() { signal.Ignore(syscall.SIGXFSZ) }

// Snapshot records the current bytes of path (called by harnesses at step boundaries so
// that a crash image can be rebuilt natively from real writer output).
func (h *H) Snapshot(path string) {
	b, _ := os.ReadFile(path)
	h.mu.Lock()
	h.snaps[path] = append(h.snaps[path], b)
	h.mu.Unlock()
}

// nativeCrash rebuilds the crash image: Extra["crash"] = {"base": i, "next": j, "ranges": [[off,len],...]}
// image = snapshot[base] overlaid, for each range, with the bytes of snapshot[next]; truncated/extended accordingly.
func (h *H) nativeCrash(path string) bool {
	plan, ok := h.rp.Extra["crashPlan"].(map[string]any)
	if !ok {
		return false
	}
	snaps := h.snaps[path]
	base := int(plan["base"].(float64))
	next := int(plan["next"].(float64))
	if base >= len(snaps) || next >= len(snaps) {
		panic("verifrt: crash plan refers to a missing snapshot")
	}
	img := append([]byte(nil), snaps[base]...)
	nb := snaps[next]
	if rs, ok := plan["ranges"].([]any); ok {
		for _, r := range rs {
			rr := r.([]any)
			off, n := int(rr[0].(float64)), int(rr[1].(float64))
			for i := 0; i < n; i++ {
				if off+i >= len(nb) {
					break
				}
				for len(img) <= off+i {
					img = append(img, 0)
				}
				img[off+i] = nb[off+i]
			}
		}
	}
	if err := os.WriteFile(path, img, 0o644); err != nil {
		panic(err)
	}
	return true
}
