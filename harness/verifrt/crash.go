package verifrt

import (
	"os"
	"os/signal"
	"syscall"

	"github.com/hydraide/hydraide/app/verifrt/vos"
)

func ignoreXFSZ() { signal.Ignore(syscall.SIGXFSZ) }

// Snapshot records the current bytes of path (called by harnesses at step boundaries so
// that a crash image can be rebuilt natively from real writer output).
func (h *H) Snapshot(path string) {
	b, _ := os.ReadFile(path)
	h.mu.Lock()
	h.snaps[path] = append(h.snaps[path], b)
	h.mu.Unlock()
}

// nativeCrash rebuilds the crash image from the real operation log recorded by package vos
// (the package under test is compiled with its "os" import pointed at vos for replay):
// Extra["crashPlan"] = {"k": index into the operation log, "torn": bytes of operation k applied}.
func (h *H) nativeCrash(path string) bool {
	plan, ok := h.rp.Extra["crashPlan"].(map[string]any)
	if !ok {
		return false
	}
	k := int(plan["k"].(float64))
	torn := int(plan["torn"].(float64))
	lost, _ := plan["lost"].(bool)
	vos.Rebuild(h.TempDir(), k, torn)
	return lost
}
