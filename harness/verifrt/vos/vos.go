// Package vos is a drop-in subset of package os used only for NATIVE replay: the files of the
// package under test are compiled with their import "os" pointed here (overlay, nothing is
// changed in /repo). Every mutating file operation is performed on the real file system and
// appended to an operation log with the real bytes, so that the crash point (k, torn) chosen by
// the symbolic engine on its own operation log can be rebuilt from real writer output.
package vos

import (
	"io/fs"
	"os"
	"path/filepath"
	"sort"
	"sync"
	"syscall"
)

type (
	FileInfo = os.FileInfo
	FileMode = os.FileMode
	DirEntry = os.DirEntry
	PathError = os.PathError
)

const (
	O_RDONLY = os.O_RDONLY
	O_WRONLY = os.O_WRONLY
	O_RDWR   = os.O_RDWR
	O_APPEND = os.O_APPEND
	O_CREATE = os.O_CREATE
	O_EXCL   = os.O_EXCL
	O_SYNC   = os.O_SYNC
	O_TRUNC  = os.O_TRUNC

	ModePerm = os.ModePerm
	ModeDir  = os.ModeDir
)

var (
	ErrNotExist = os.ErrNotExist
	ErrExist    = os.ErrExist
	ErrClosed   = os.ErrClosed
	Stdout      = os.Stdout
	Stderr      = os.Stderr
	Args        = os.Args
)

type Op struct {
	Kind string // create | write | truncate | sync | rename | remove
	Path string
	To   string
	Off  int64
	Data []byte
	Size int64
}

var (
	mu  sync.Mutex
	Log []Op
)

// FailNext makes the n-th next operation of the given kind (write | sync | rename | remove |
// open) fail with an I/O error without touching the file system - the native counterpart of
// the engine's fault model.
var failNext = map[string]int{}

func FailNext(kind string, n int) {
	mu.Lock()
	failNext[kind] = n
	mu.Unlock()
}

func shouldFail(kind, path string) error {
	mu.Lock()
	defer mu.Unlock()
	if n, ok := failNext[kind]; ok && n > 0 {
		failNext[kind] = n - 1
		if n == 1 {
			return &os.PathError{Op: kind, Path: path, Err: syscall.EIO}
		}
	}
	return nil
}

func logOp(o Op) {
	mu.Lock()
	Log = append(Log, o)
	mu.Unlock()
}

// LogOp lets the harness runtime record operations it performs itself (PutFile).
func LogOp(o Op) { logOp(o) }

type File struct {
	f    *os.File
	path string
	app  bool
}

func exists(name string) bool {
	fi, err := os.Lstat(name)
	return err == nil && !fi.IsDir()
}

func Create(name string) (*File, error) { return OpenFile(name, O_RDWR|O_CREATE|O_TRUNC, 0o666) }
func Open(name string) (*File, error)   { return OpenFile(name, O_RDONLY, 0) }

func OpenFile(name string, flag int, perm FileMode) (*File, error) {
	existed := exists(name)
	f, err := os.OpenFile(name, flag, perm)
	if err != nil {
		return nil, err
	}
	p := filepath.Clean(name)
	if fi, e := f.Stat(); e == nil && !fi.IsDir() {
		if !existed && flag&O_CREATE != 0 {
			logOp(Op{Kind: "create", Path: p})
		} else if existed && flag&O_TRUNC != 0 {
			logOp(Op{Kind: "truncate", Path: p, Size: 0})
		}
	}
	return &File{f: f, path: p, app: flag&O_APPEND != 0}, nil
}

func (f *File) Name() string { return f.f.Name() }
func (f *File) Fd() uintptr  { return f.f.Fd() }

func (f *File) Write(b []byte) (int, error) {
	if err := shouldFail("write", f.path); err != nil {
		return 0, err
	}
	var off int64
	if f.app {
		if fi, err := f.f.Stat(); err == nil {
			off = fi.Size()
		}
	} else {
		off, _ = f.f.Seek(0, 1)
	}
	n, err := f.f.Write(b)
	if n > 0 {
		logOp(Op{Kind: "write", Path: f.path, Off: off, Data: append([]byte(nil), b[:n]...)})
	}
	return n, err
}

func (f *File) WriteString(s string) (int, error) { return f.Write([]byte(s)) }

func (f *File) WriteAt(b []byte, off int64) (int, error) {
	if err := shouldFail("write", f.path); err != nil {
		return 0, err
	}
	n, err := f.f.WriteAt(b, off)
	if n > 0 {
		logOp(Op{Kind: "write", Path: f.path, Off: off, Data: append([]byte(nil), b[:n]...)})
	}
	return n, err
}

func (f *File) Read(b []byte) (int, error)                { return f.f.Read(b) }
func (f *File) ReadAt(b []byte, off int64) (int, error)   { return f.f.ReadAt(b, off) }
func (f *File) Seek(off int64, whence int) (int64, error) { return f.f.Seek(off, whence) }
func (f *File) Stat() (FileInfo, error)                   { return f.f.Stat() }
func (f *File) Close() error                              { return f.f.Close() }
func (f *File) ReadDir(n int) ([]DirEntry, error)         { return f.f.ReadDir(n) }
func (f *File) Readdirnames(n int) ([]string, error)      { return f.f.Readdirnames(n) }

func (f *File) Sync() error {
	if err := shouldFail("sync", f.path); err != nil {
		return err
	}
	err := f.f.Sync()
	if err == nil {
		logOp(Op{Kind: "sync", Path: f.path})
	}
	return err
}

func (f *File) Truncate(size int64) error {
	err := f.f.Truncate(size)
	if err == nil {
		logOp(Op{Kind: "truncate", Path: f.path, Size: size})
	}
	return err
}

func Stat(name string) (FileInfo, error)  { return os.Stat(name) }
func Lstat(name string) (FileInfo, error) { return os.Lstat(name) }
func IsNotExist(err error) bool           { return os.IsNotExist(err) }
func IsExist(err error) bool              { return os.IsExist(err) }
func MkdirAll(p string, m FileMode) error { return os.MkdirAll(p, m) }
func Mkdir(p string, m FileMode) error    { return os.Mkdir(p, m) }
func ReadDir(p string) ([]DirEntry, error) { return os.ReadDir(p) }
func ReadFile(p string) ([]byte, error)   { return os.ReadFile(p) }
func Getenv(k string) string              { return os.Getenv(k) }
func Exit(c int)                          { os.Exit(c) }
func MkdirTemp(d, p string) (string, error) { return os.MkdirTemp(d, p) }

func WriteFile(name string, data []byte, perm FileMode) error {
	f, err := OpenFile(name, O_WRONLY|O_CREATE|O_TRUNC, perm)
	if err != nil {
		return err
	}
	_, err = f.Write(data)
	if e := f.Close(); err == nil {
		err = e
	}
	return err
}

func Remove(name string) error {
	if err := shouldFail("remove", name); err != nil {
		return err
	}
	wasFile := exists(name)
	err := os.Remove(name)
	if err == nil && wasFile {
		logOp(Op{Kind: "remove", Path: filepath.Clean(name)})
	}
	return err
}

func RemoveAll(name string) error {
	var files []string
	filepath.Walk(name, func(p string, fi fs.FileInfo, err error) error {
		if err == nil && !fi.IsDir() {
			files = append(files, p)
		}
		return nil
	})
	sort.Strings(files)
	err := os.RemoveAll(name)
	if err == nil {
		for _, p := range files {
			logOp(Op{Kind: "remove", Path: filepath.Clean(p)})
		}
	}
	return err
}

func Rename(from, to string) error {
	if err := shouldFail("rename", from); err != nil {
		return err
	}
	err := os.Rename(from, to)
	if err == nil {
		logOp(Op{Kind: "rename", Path: filepath.Clean(from), To: filepath.Clean(to)})
	}
	return err
}

// Rebuild replaces the files under root by the state after the first k logged operations plus
// the first torn bytes of operation k (if it is a write), and resets the log to that state.
func Rebuild(root string, k, torn int) {
	mu.Lock()
	defer mu.Unlock()
	files := map[string][]byte{}
	apply := func(o Op, limit int) {
		switch o.Kind {
		case "create":
			files[o.Path] = []byte{}
		case "write":
			d := files[o.Path]
			data := o.Data
			if limit >= 0 && limit < len(data) {
				data = data[:limit]
			}
			for int64(len(d)) < o.Off {
				d = append(d, 0)
			}
			for i, b := range data {
				if o.Off+int64(i) < int64(len(d)) {
					d[o.Off+int64(i)] = b
				} else {
					d = append(d, b)
				}
			}
			files[o.Path] = d
		case "truncate":
			if d, ok := files[o.Path]; ok {
				if o.Size < int64(len(d)) {
					d = d[:o.Size]
				}
				for int64(len(d)) < o.Size {
					d = append(d, 0)
				}
				files[o.Path] = d
			}
		case "rename":
			if d, ok := files[o.Path]; ok {
				delete(files, o.Path)
				files[o.To] = d
			}
		case "remove":
			delete(files, o.Path)
		}
	}
	for i := 0; i < k && i < len(Log); i++ {
		apply(Log[i], -1)
	}
	if torn > 0 && k < len(Log) && Log[k].Kind == "write" {
		t := torn
		if t >= len(Log[k].Data) {
			t = len(Log[k].Data) - 1
		}
		apply(Log[k], t)
	}
	// wipe regular files under root, then materialise the image
	var old []string
	filepath.Walk(root, func(p string, fi fs.FileInfo, err error) error {
		if err == nil && !fi.IsDir() {
			old = append(old, p)
		}
		return nil
	})
	for _, p := range old {
		os.Remove(p)
	}
	var names []string
	for p := range files {
		names = append(names, p)
	}
	sort.Strings(names)
	Log = nil
	for _, p := range names {
		os.MkdirAll(filepath.Dir(p), 0o755)
		if err := os.WriteFile(p, files[p], 0o644); err != nil {
			panic(err)
		}
		Log = append(Log, Op{Kind: "create", Path: p}, Op{Kind: "write", Path: p, Off: 0, Data: files[p]})
	}
	Log = append(Log, Op{Kind: "sync"})
}
