//go:build verif

package compressor

import (
	"compress/gzip"
	"errors"
	"io"

	"github.com/hydraide/hydraide/app/verifrt"
	"github.com/klauspost/compress/zstd"
	"github.com/pierrec/lz4"
)

// Contract model of the four codec libraries (engine only; natively the real libraries run):
//   - the "compressed form" is the input behind a one-byte frame marker (identity codec);
//   - every constructor / Write / Close / EncodeAll may fail with a library error (a harness choice);
//   - a streaming reader delivers the bytes of the frame in chunks of arbitrary size; a damaged
//     frame delivers ARBITRARY bytes and the library reports the damage no later than the Read
//     that would otherwise have returned io.EOF (gzip CRC32/ISIZE trailer, LZ4 content checksum);
//   - one-shot decoders (zstd DecodeAll, snappy Decode) report a damaged frame as an error.
// Snappy's block format has no checksum; whether real Snappy detects a given corruption is
// outside the claim (the v2 storage engine adds its own CRC32 per block).
var (
	c24h        *verifrt.H
	c24failAt   int // which library call fails (0 = none), counted per run
	c24calls    int
	c24damaged  bool
	c24src      io.Reader
	c24eof      bool
	c24lz4Size  uint64
	errC24lib   = errors.New("library error")
	errC24check = errors.New("checksum mismatch")
)

func c24fail() bool {
	c24calls++
	return c24calls == c24failAt
}

func c24write(w io.Writer, p []byte, first *bool) (int, error) {
	if c24fail() {
		return 0, errC24lib
	}
	if !*first {
		*first = true
		if _, err := w.Write([]byte{0xF7}); err != nil {
			return 0, err
		}
	}
	return w.Write(p)
}

var c24gzW, c24lzW io.Writer
var c24gzStarted, c24lzStarted bool

func c24gzipNewWriter(w io.Writer) *gzip.Writer { c24gzW, c24gzStarted = w, false; return &gzip.Writer{} }
func c24gzipWrite(z *gzip.Writer, p []byte) (int, error) {
	return c24write(c24gzW, p, &c24gzStarted)
}
func c24gzipClose(z *gzip.Writer) error {
	if c24fail() {
		return errC24lib
	}
	_, err := c24write(c24gzW, nil, &c24gzStarted)
	return err
}

func c24lz4NewWriter(w io.Writer) *lz4.Writer { c24lzW, c24lzStarted = w, false; return &lz4.Writer{} }
func c24lz4Write(z *lz4.Writer, p []byte) (int, error) {
	if !c24lzStarted {
		c24lz4Size = z.Header.Size // the frame header is emitted with the first write
	}
	return c24write(c24lzW, p, &c24lzStarted)
}
func c24lz4Close(z *lz4.Writer) error {
	if c24fail() {
		return errC24lib
	}
	_, err := c24write(c24lzW, nil, &c24lzStarted)
	return err
}

// streaming read side
func c24read(p []byte, hdr func()) (int, error) {
	if c24fail() {
		return 0, errC24lib
	}
	if c24src != nil && !c24eof {
		// frame marker
		var m [1]byte
		if n, _ := c24src.Read(m[:]); n == 0 || m[0] != 0xF7 {
			return 0, errC24check // not a frame at all
		}
		c24eof = true
		hdr()
	}
	if len(p) == 0 {
		return 0, nil
	}
	max := len(p)
	if c24h.Choose("shortRead", 2) == 1 {
		max = 1 // a reader may deliver fewer bytes than asked for
	}
	n, err := c24src.Read(p[:max])
	if c24damaged {
		for i := 0; i < n; i++ {
			p[i] = c24h.Uint8("damagedByte")
		}
	}
	if err == io.EOF || n == 0 {
		if c24damaged {
			return 0, errC24check
		}
		return 0, io.EOF
	}
	return n, nil
}

func c24gzipNewReader(r io.Reader) (*gzip.Reader, error) {
	if c24fail() {
		return nil, errC24lib
	}
	c24src, c24eof = r, false
	return &gzip.Reader{}, nil
}
func c24gzipRead(z *gzip.Reader, p []byte) (int, error) { return c24read(p, func() {}) }

func c24lz4NewReader(r io.Reader) *lz4.Reader { c24src, c24eof = r, false; return &lz4.Reader{} }
func c24lz4Read(z *lz4.Reader, p []byte) (int, error) {
	return c24read(p, func() { z.Header.Size = c24lz4Size })
}

// one-shot codecs
func c24encode(dst, src []byte) []byte { return append([]byte{0xF7}, src...) }
func c24decode(dst, src []byte) ([]byte, error) {
	if c24fail() {
		return nil, errC24lib
	}
	if len(src) == 0 || src[0] != 0xF7 || c24damaged {
		return nil, errC24check
	}
	return append([]byte{}, src[1:]...), nil
}
func c24zstdNewWriter(w io.Writer, opts ...zstd.EOption) (*zstd.Encoder, error) {
	if c24fail() {
		return nil, errC24lib
	}
	return &zstd.Encoder{}, nil
}
func c24zstdEncodeAll(e *zstd.Encoder, src, dst []byte) []byte { return c24encode(dst, src) }
func c24zstdNewReader(r io.Reader, opts ...zstd.DOption) (*zstd.Decoder, error) {
	if c24fail() {
		return nil, errC24lib
	}
	return &zstd.Decoder{}, nil
}
func c24zstdDecodeAll(d *zstd.Decoder, input, dst []byte) ([]byte, error) {
	return c24decode(dst, input)
}

func c24stubs(h *verifrt.H) {
	c24h, c24calls, c24damaged, c24src, c24eof, c24lz4Size = h, 0, false, nil, false, 0
	h.Stub("compress/gzip.NewWriter", c24gzipNewWriter)
	h.Stub("(*compress/gzip.Writer).Write", c24gzipWrite)
	h.Stub("(*compress/gzip.Writer).Close", c24gzipClose)
	h.Stub("compress/gzip.NewReader", c24gzipNewReader)
	h.Stub("(*compress/gzip.Reader).Read", c24gzipRead)
	h.Stub("github.com/pierrec/lz4.NewWriter", c24lz4NewWriter)
	h.Stub("(*github.com/pierrec/lz4.Writer).Write", c24lz4Write)
	h.Stub("(*github.com/pierrec/lz4.Writer).Close", c24lz4Close)
	h.Stub("github.com/pierrec/lz4.NewReader", c24lz4NewReader)
	h.Stub("(*github.com/pierrec/lz4.Reader).Read", c24lz4Read)
	h.Stub("github.com/golang/snappy.Encode", c24encode)
	h.Stub("github.com/golang/snappy.Decode", c24decode)
	h.Stub("github.com/klauspost/compress/zstd.NewWriter", c24zstdNewWriter)
	h.Stub("(*github.com/klauspost/compress/zstd.Encoder).EncodeAll", c24zstdEncodeAll)
	h.Stub("github.com/klauspost/compress/zstd.NewReader", c24zstdNewReader)
	h.Stub("(*github.com/klauspost/compress/zstd.Decoder).DecodeAll", c24zstdDecodeAll)
}

func c24eq(a, b []byte) bool {
	if len(a) != len(b) {
		return false
	}
	for i := range a {
		if a[i] != b[i] {
			return false
		}
	}
	return true
}

// VerifC24Wrapper: for every algorithm and every input up to maxLen bytes:
//   - with no library failure, Decompress(Compress(x)) == x;
//   - if any library call fails, the wrapper returns a non-nil error (never (data, nil));
//   - decompressing a damaged frame returns an error or the original data, never different or
//     empty data with a nil error: the wrapper must read the stream to its end so that the
//     library's end-of-stream integrity check is reached.
func VerifC24Wrapper(h *verifrt.H) {
	c24stubs(h)
	algo := Type(1 + h.Choose("algorithm", 4))
	x := h.Bytes("input", h.Len("inputLen", 0, h.Param("maxLen", 3)))
	c := New(algo)
	scenario := h.Choose("scenario", 3) // 0 clean, 1 a library call fails, 2 damaged frame
	if scenario == 1 && !h.Native() {
		c24failAt = h.Len("failingCall", 1, 6)
	} else {
		c24failAt = 0
	}
	comp, err := c.Compress(x)
	if err != nil {
		h.Assert(scenario == 1, "compress-fails-only-on-library-error")
		h.Cover("end")
		return
	}
	if scenario == 1 && c24calls >= c24failAt && !h.Native() {
		h.Assert(false, "library-error-during-compress-propagated")
	}
	if scenario != 2 {
		out, err := c.Decompress(comp)
		if err == nil {
			h.Assert(scenario == 0 || c24calls < c24failAt || h.Native(), "library-error-during-decompress-propagated")
			h.Assert(c24eq(out, x), "roundtrip-identity")
		} else {
			h.Assert(scenario == 1, "decompress-fails-only-on-library-error")
		}
		h.Cover("end")
		return
	}
	// damaged frame
	if h.Native() {
		// natively: every single-byte damage of the real compressed form
		for pos := range comp {
			for _, mask := range []byte{0x01, 0x10, 0x80, 0xff} {
				d := append([]byte{}, comp...)
				d[pos] ^= mask
				out, err := c.Decompress(d)
				if algo != Snappy {
					h.Assert(err != nil || c24eq(out, x), "damaged-frame-error-or-original")
				}
			}
		}
		h.Cover("end")
		return
	}
	c24damaged = true
	out, err := c.Decompress(comp)
	h.Assert(err != nil || c24eq(out, x), "damaged-frame-error-or-original")
	h.Cover("end")
}
