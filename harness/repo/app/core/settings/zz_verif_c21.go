//go:build verif

package settings

import (
	"time"

	"github.com/hydraide/hydraide/app/core/settings/setting"
	"github.com/hydraide/hydraide/app/name"
	"github.com/hydraide/hydraide/app/verifrt"
)

// persistence model: json.MarshalIndent / json.Unmarshal are replaced by a deep copy of the
// settings model (the file content is a token); everything else - RegisterPattern, the model
// bookkeeping, SaveSettingsToFilesystem, loadSettingsFromFilesystem, name.Load - is the real code.
var c21saved *Model

func c21copy(m *Model) *Model {
	c := &Model{Engine: m.Engine, StreamPath: m.StreamPath, AutoMoverPath: m.AutoMoverPath, Patterns: map[string]*PatternModel{}}
	for k, v := range m.Patterns {
		p := *v
		c.Patterns[k] = &p
	}
	return c
}

func c21marshal(v any, prefix, indent string) ([]byte, error) {
	if m, ok := v.(*Model); ok && m != nil {
		c21saved = c21copy(m)
	}
	return []byte("{}"), nil
}

func c21unmarshal(data []byte, v any) error {
	if pp, ok := v.(**Model); ok && c21saved != nil {
		*pp = c21copy(c21saved)
	}
	return nil
}

type c21pat struct {
	s, r, w string
	spec    int // specificity: number of non-wildcard parts below the sanctuary
	match   bool
}

var c21pats = []c21pat{
	{"s", "r", "w", 2, true},
	{"s", "r", "*", 1, true},
	{"s", "*", "*", 0, true},
	{"s", "*", "w", 1, true},
	{"s", "q", "*", 1, false},
	{"t", "*", "*", 0, false},
}

// c21new builds the settings object the way the package does (New), with the start-up
// directory checks stubbed out and nothing to load; the persisted model goes to a scratch dir.
func c21new(h *verifrt.H) *settings {
	h.Stub("github.com/hydraide/hydraide/app/core/settings.checkFolder", func(string) {})
	dir := h.TempDir() + "/settings"
	saved := c21saved
	c21saved = nil // New loads the persisted model: start empty, the caller loads explicitly
	st := New(0, 0).(*settings)
	c21saved = saved
	hydraSettingsFolderPath = dir
	return st
}

// VerifC21Settings: up to maxPatterns overlapping patterns (exact, realm wildcard, swamp
// wildcard, non-matching) registered in any order with distinct settings, with re-registration
// and deregistration, for EVERY map iteration order: the settings resolved for s/r/w are those
// of the most specific matching pattern, the same on every lookup, and the same after a
// restart that reloads the persisted model.
func VerifC21Settings(h *verifrt.H) {
	h.Stub("encoding/json.MarshalIndent", c21marshal)
	h.Stub("encoding/json.Unmarshal", c21unmarshal)
	c21saved = nil
	hydraSettingsFolderPath = h.TempDir() + "/settings"
	s := c21new(h)
	type reg struct {
		idle  int64
		mem   bool
		write int64
	}
	cur := make([]*reg, len(c21pats))
	n := h.Len("steps", 1, h.Param("maxSteps", 3))
	lookAfter := h.Choose("lookupAfterStep", n) // the last step's lookup is the final check itself: n-1 = none
	for i := 0; i < n; i++ {
		k := h.Choose("pattern", len(c21pats))
		p := c21pats[k]
		pn := name.New().Sanctuary(p.s).Realm(p.r).Swamp(p.w)
		if h.Choose("deregister", 3) == 2 {
			s.DeregisterPattern(pn)
			cur[k] = nil
			continue
		}
		// symbolic settings: if a lookup resolves to another pattern the solver picks values that differ
		r := &reg{idle: int64(h.IntRange("idleSec", 1, 100000)), mem: h.Choose("inMemory", 2) == 1, write: int64(h.IntRange("writeSec", 1, 100000))}
		if r.mem {
			s.RegisterPattern(pn, true, r.idle, nil)
			r.write = 0
		} else {
			s.RegisterPattern(pn, false, r.idle, &FileSystemSettings{WriteIntervalSec: r.write, MaxFileSizeByte: 100})
		}
		cur[k] = r
		// a lookup between two registrations must not influence later lookups
		if i == lookAfter {
			s.GetBySwampName(name.New().Sanctuary("s").Realm("r").Swamp("w"))
		}
	}
	// expected: a most specific registered matching pattern; with two matching patterns of equal
	// specificity (s/r/* and s/*/w) either may win, but the choice must not depend on the
	// registration order, the map iteration order or a restart
	best, tie := -1, -1
	for k := range cur {
		if cur[k] == nil || !c21pats[k].match {
			continue
		}
		switch {
		case best < 0 || c21pats[k].spec > c21pats[best].spec:
			best, tie = k, -1
		case c21pats[k].spec == c21pats[best].spec:
			tie = k
		}
	}
	q := name.New().Sanctuary("s").Realm("r").Swamp("w")
	winner := -2 // pattern index that won in the first lookup
	check := func(st Settings, label string) {
		// natively Go randomises the iteration order per range statement: repeat the lookup
		reps := 1
		if h.Native() {
			reps = 300
		}
		for i := 0; i < reps; i++ {
			h.MapOrderNondet(true) // the engine explores every iteration order instead
			got := st.GetBySwampName(q)
			h.MapOrderNondet(false)
			if best < 0 {
				h.Assert(got.GetCloseAfterIdle() == 5*time.Second && got.GetSwampType() == setting.PermanentSwamp, label+"-default-when-nothing-matches")
				continue
			}
			is := func(k int) bool {
				w := cur[k]
				wantType := setting.PermanentSwamp
				if w.mem {
					wantType = setting.InMemorySwamp
				}
				return got.GetCloseAfterIdle() == time.Duration(w.idle)*time.Second && got.GetSwampType() == wantType &&
					got.GetWriteInterval() == time.Duration(w.write)*time.Second && got.GetPattern().Get() == c21pats[k].s+"/"+c21pats[k].r+"/"+c21pats[k].w
			}
			h.Assert(is(best) || tie >= 0 && is(tie), label+"-most-specific-pattern-wins")
			now := best
			if tie >= 0 && is(tie) {
				now = tie
			}
			if winner == -2 {
				winner = now
			}
			h.Assert(now == winner, label+"-same-winner-for-every-order-and-after-restart")
		}
	}
	check(s, "lookup")
	// the same final set registered in the opposite order must resolve identically
	sRev := c21new(h)
	keep := c21saved
	for k := len(cur) - 1; k >= 0; k-- {
		if cur[k] == nil {
			continue
		}
		p := c21pats[k]
		pn := name.New().Sanctuary(p.s).Realm(p.r).Swamp(p.w)
		if cur[k].mem {
			sRev.RegisterPattern(pn, true, cur[k].idle, nil)
		} else {
			sRev.RegisterPattern(pn, false, cur[k].idle, &FileSystemSettings{WriteIntervalSec: cur[k].write, MaxFileSizeByte: 100})
		}
	}
	c21saved = keep
	check(sRev, "reverse-registration")
	// restart: a fresh settings object loads the persisted model
	s2 := c21new(h)
	h.MapOrderNondet(true)
	lerr := s2.loadSettingsFromFilesystem()
	h.MapOrderNondet(false)
	h.Assert(lerr == nil, "restart-load-ok")
	check(s2, "after-restart")
	h.Cover("end")
}
