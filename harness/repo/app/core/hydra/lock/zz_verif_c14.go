//go:build verif

package lock

import (
	"context"
	"time"

	"github.com/hydraide/hydraide/app/verifrt"
)

// VerifC14Lock: two callers on one key. Caller A: unlock after grant (then a stale unlock) or
// never unlock (the TTL releases). Caller B: unlock / cancel its context while waiting / try a
// foreign id first. TTL timers are environment events that may fire at any scheduling point.
// Invariants: a grant goes only to the head of the queue, nobody granted earlier is still
// queued at that moment (exclusive), a foreign or stale unlock fails and changes nothing,
// every caller finishes (nobody stays blocked once holders are gone).
func VerifC14Lock(h *verifrt.H) {
	l := New().(*lock)
	var granted []string
	finished := 0
	inQueue := func(id string) (bool, bool) { // (present, head)
		v, ok := l.queues.Load("k")
		if !ok {
			return false, false
		}
		q := v.(*queue)
		for i, c := range q.callers {
			if c.id == id {
				return true, i == 0
			}
		}
		return false, false
	}
	onGrant := func(id string) {
		present, head := inQueue(id)
		h.Assert(!present || head, "grant-only-to-head")
		if present {
			for _, g := range granted {
				p, _ := inQueue(g)
				h.Assert(!p, "exclusive-holder")
			}
		}
		granted = append(granted, id)
	}
	modeA := h.Choose("modeA", 2)
	modeB := h.Choose("modeB", 3)
	h.Go("A", func() {
		id, err := l.Lock(context.Background(), "k", time.Second)
		h.Assert(err == nil, "lock-without-cancel-succeeds")
		onGrant(id)
		if modeA == 0 {
			l.Unlock("k", id) // may report "not found" if the TTL fired first
			h.Assert(l.Unlock("k", id) != nil, "stale-unlock-rejected")
		}
		finished++
	})
	h.Go("B", func() {
		ctx, cancel := context.WithCancel(context.Background())
		defer cancel()
		if modeB == 1 {
			h.Go("canceller", func() { cancel() })
		}
		id, err := l.Lock(ctx, "k", time.Second)
		if err != nil {
			h.Assert(modeB == 1, "lock-fails-only-when-cancelled")
			p, _ := inQueue(id)
			h.Assert(!p, "cancelled-waiter-left-queue")
			finished++
			return
		}
		onGrant(id)
		if modeB == 2 {
			before, _ := inQueue(id)
			h.Assert(l.Unlock("k", "foreign-id") != nil, "foreign-unlock-rejected")
			after, _ := inQueue(id)
			h.Assert(before == after || !after, "foreign-unlock-no-effect")
		}
		l.Unlock("k", id)
		finished++
	})
	h.AtQuiescence(func() {
		h.Assert(finished == 2, "every-caller-finished")
		h.Cover("end")
	})
}

// VerifC14Handover: A holds, B waits with a cancellable context, C waits behind B. B is
// cancelled while A releases. Whatever the interleaving, C must eventually be granted the
// lock (no waiter left blocked once all holders are gone), and grants go to the queue head.
func VerifC14Handover(h *verifrt.H) {
	l := New().(*lock)
	done := 0
	idA, err := l.Lock(context.Background(), "k", time.Hour)
	h.Assert(err == nil, "A-granted")
	ctxB, cancelB := context.WithCancel(context.Background())
	h.Go("B", func() {
		id, err := l.Lock(ctxB, "k", time.Hour)
		if err == nil {
			l.Unlock("k", id)
		}
		done++
	})
	h.Go("C", func() {
		id, err := l.Lock(context.Background(), "k", time.Hour)
		h.Assert(err == nil, "C-granted")
		l.Unlock("k", id)
		done++
	})
	h.Go("A", func() {
		cancelB()
		l.Unlock("k", idA)
		done++
	})
	h.AtQuiescence(func() {
		h.Assert(done == 3, "every-caller-finished")
		h.Cover("end")
	})
}

// VerifC14Queue is the inductive step on the queue: an arbitrary queue of <=4 live callers
// (distinct ids, ready closed exactly for the head, done open for all), one enqueue or
// remove(symbolic id): order of the others unchanged, the new head is ready, the removed
// caller's done is closed, nobody else's channels change.
func VerifC14Queue(h *verifrt.H) {
	n := h.Len("qlen", 0, h.Param("maxQueue", 4))
	q := New().(*lock).getQueue("k") // built the way the package builds it
	ids := []string{"a", "b", "c", "d", "e"}
	for i := 0; i < n; i++ {
		c := &caller{id: ids[i], ready: make(chan struct{}), done: make(chan struct{})}
		if i == 0 {
			close(c.ready)
		}
		q.callers = append(q.callers, c)
	}
	pre := append([]*caller(nil), q.callers...)
	isClosed := func(ch chan struct{}) bool {
		select {
		case <-ch:
			return true
		default:
			return false
		}
	}
	if h.Choose("op", 2) == 0 {
		c := &caller{id: "new", ready: make(chan struct{}), done: make(chan struct{})}
		// a retired queue (its last caller left; it is being dropped from the map) is empty
		// and refuses new callers
		if n == 0 && h.Bool("retired") {
			q.retired = true
			h.Assert(!q.enqueue(c) && len(q.callers) == 0 && !isClosed(c.ready), "retired-queue-takes-nobody")
			h.Cover("end")
			return
		}
		h.Assert(q.enqueue(c), "live-queue-accepts")
		h.Assert(len(q.callers) == n+1 && q.callers[n] == c, "enqueue-at-tail")
		h.Assert(isClosed(c.ready) == (n == 0), "enqueue-ready-iff-head")
	} else {
		k := h.Len("which", 0, 5) // index into ids (5 = unknown id)
		id := "zz"
		if k < 5 {
			id = ids[k]
		}
		ok, retired := q.remove(id)
		h.Assert(ok == (k < n), "remove-reports-membership")
		h.Assert(retired == (k < n && n == 1) && q.retired == retired, "retired-exactly-when-last-caller-left")
		if k < n {
			h.Assert(isClosed(pre[k].done), "removed-done-closed")
			h.Assert(len(q.callers) == n-1, "remove-shrinks")
		} else {
			h.Assert(len(q.callers) == n, "remove-unknown-no-effect")
		}
	}
	// order of survivors unchanged; exactly the head is ready; survivors' done open
	j := 0
	for _, c := range pre {
		if j < len(q.callers) && q.callers[j] == c {
			j++
		}
	}
	for i, c := range q.callers {
		if c.id == "new" {
			continue
		}
		h.Assert(isClosed(c.ready) == (i == 0), "ready-exactly-for-head")
		h.Assert(!isClosed(c.done), "survivor-done-open")
	}
	h.Cover("end")
}
