//go:build verif

package lock

import (
	"context"
	"time"

	"github.com/hydraide/hydraide/app/verifrt"
)

// VerifC28Lock: after every lock on every key has been released (by unlock or by TTL), no
// per-key state is kept. Sequential steps over <=2 keys; TTL expiry is an environment event.
func VerifC28Lock(h *verifrt.H) {
	l := New().(*lock)
	n := h.Param("keys", 2)
	keys := []string{"k1", "k2", "k3"}
	h.Go("client", func() {
		for i := 0; i < n; i++ {
			key := keys[i]
			id, err := l.Lock(context.Background(), key, time.Second)
			h.Assert(err == nil, "lock-granted")
			if h.Choose("release", 2) == 0 {
				l.Unlock(key, id)
			}
		}
	})
	h.AtQuiescence(func() {
		cnt := 0
		l.queues.Range(func(k, v any) bool {
			q := v.(*queue)
			h.Assert(len(q.callers) == 0, "all-released")
			cnt++
			return true
		})
		h.Assert(cnt == 0, "no-per-key-state-left")
		h.Cover("end")
	})
}

// VerifC28Contended: callers contend for ONE key while queues are being retired and dropped:
// every schedule (preemption-bounded) of `clients` clients; the first does `rounds` lock/unlock
// rounds, the others one. The queue of a key is retired whenever its last caller leaves, so a Lock can look up a
// queue that is retired before it enqueues. Obligations: one holder at a time, every Lock is
// granted, and at quiescence no per-key state is left. TTL timers do not fire here.
func VerifC28Contended(h *verifrt.H) {
	l := New().(*lock)
	clients, rounds := h.Param("clients", 2), h.Param("rounds", 2)
	holders, finished := 0, 0
	names := []string{"A", "B", "C"}
	for c := 0; c < clients; c++ {
		myRounds := 1 // one client re-locks (so that a fresh queue is created while another caller still holds the old one)
		if c == 0 {
			myRounds = rounds
		}
		h.Go(names[c], func() {
			for r := 0; r < myRounds; r++ {
				id, err := l.Lock(context.Background(), "k", time.Hour)
				h.Assert(err == nil, "lock-granted")
				holders++
				h.Assert(holders == 1, "one-holder-per-key-across-queue-retirement")
				h.Yield()
				holders--
				h.Assert(l.Unlock("k", id) == nil, "holder-unlock-ok")
			}
			finished++
		})
	}
	h.AtQuiescence(func() {
		h.Assert(finished == clients, "every-client-finished")
		cnt := 0
		l.queues.Range(func(k, v any) bool {
			cnt++
			return true
		})
		h.Assert(cnt == 0, "no-per-key-state-left")
		h.Cover("end")
	})
}

// VerifC28Waiter: a holder, and a waiter on the same key whose context is cancelled while it
// waits (behind the head); then the holder releases by Unlock or its TTL fires. Whatever the
// interleaving, once nobody holds or waits the per-key state is gone.
func VerifC28Waiter(h *verifrt.H) {
	l := New().(*lock)
	release := h.Choose("holderRelease", 2)
	h.Go("holder", func() {
		id, err := l.Lock(context.Background(), "k", time.Second)
		h.Assert(err == nil, "lock-granted")
		ctx, cancel := context.WithCancel(context.Background())
		h.Go("waiter", func() {
			wid, werr := l.Lock(ctx, "k", time.Second)
			if werr == nil {
				l.Unlock("k", wid)
			}
		})
		h.Go("canceller", func() { cancel() })
		h.Yield()
		if release == 0 {
			l.Unlock("k", id)
		}
	})
	h.AtQuiescence(func() {
		cnt := 0
		l.queues.Range(func(k, v any) bool {
			cnt++
			return true
		})
		h.Assert(cnt == 0, "no-per-key-state-left-after-cancelled-waiter")
		h.Cover("end")
	})
}
