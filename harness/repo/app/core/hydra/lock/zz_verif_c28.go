//go:build verif

package lock

import (
	"context"
	"time"

	"github.com/hydraide/hydraide/app/verifrt"
)

// VerifC28Lock: after every lock on every key has been released (by unlock or by TTL), no
// per-key state is kept. Sequential steps over <=2 keys; TTL expiry is an environment event.
func VerifC28Lock(h *verifrt.H) {
	l := New().(*lock)
	n := h.Param("keys", 2)
	keys := []string{"k1", "k2", "k3"}
	h.Go("client", func() {
		for i := 0; i < n; i++ {
			key := keys[i]
			id, err := l.Lock(context.Background(), key, time.Second)
			h.Assert(err == nil, "lock-granted")
			if h.Choose("release", 2) == 0 {
				l.Unlock(key, id)
			}
		}
	})
	h.AtQuiescence(func() {
		cnt := 0
		l.queues.Range(func(k, v any) bool {
			q := v.(*queue)
			h.Assert(len(q.callers) == 0, "all-released")
			cnt++
			return true
		})
		h.Known("C28-lock-queues-never-pruned", "no-per-key-state", true)
		h.Assert(cnt == 0, "no-per-key-state-left")
		h.ClearKnown()
		h.Cover("end")
	})
}
