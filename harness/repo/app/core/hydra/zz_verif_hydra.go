//go:build verif

package hydra

import (
	"context"
	"time"

	"github.com/hydraide/hydraide/app/core/hydra/swamp"
	"github.com/hydraide/hydraide/app/core/hydra/swamp/metadata"
	"github.com/hydraide/hydraide/app/name"
	"github.com/hydraide/hydraide/app/verifrt"
)

// vhLive counts constructed-but-not-closed swamp objects (ghost state of the harness).
var vhLive, vhCreated int

// vhCreate replaces hydra.createNewSwamp (settings, hashing and the chronicler are C20/C21/C01
// territory): it builds a REAL in-memory swamp wired to the hydra's real callbacks.
func vhCreate(hy *hydra, islandID uint64, n name.Name) swamp.Swamp {
	vhLive++
	vhCreated++
	return swamp.New(n, time.Hour, nil, hy.eventCallbackFunction, hy.infoCallbackFunction, func(c name.Name) {
		vhLive--
		hy.closeEventCallbackFunction(c)
	}, metadata.NewNoop())
}

func vhNew(h *verifrt.H) *hydra {
	vhLive, vhCreated = 0, 0
	h.Stub("(*github.com/hydraide/hydraide/app/core/hydra.hydra).createNewSwamp", vhCreate)
	return New(nil, nil, nil, nil).(*hydra)
}

// VerifC18Summon: k concurrent summoners of one swamp name (optionally one with an already
// cancelled context, optionally an instance that is being destroyed meanwhile), every
// interleaving within the preemption bound: at no quiescent point are there two live instances,
// and every summoner that got an instance got the one the server has mapped.
func VerifC18Summon(h *verifrt.H) { vhSummon(h, false) }

// VerifC18SummonDestroy: the same while the current instance is being destroyed (the summoners
// have to wait for the close to complete and then create exactly one new instance). No timer
// elapses during the scenario (the 30 s close timeout is not reached).
func VerifC18SummonDestroy(h *verifrt.H) { vhSummon(h, true) }

func vhSummon(h *verifrt.H, withDestroy bool) {
	h.BackgroundLowPriority(true)
	hy := vhNew(h)
	n := name.New().Sanctuary("s").Realm("r").Swamp("w")
	k := h.Param("summoners", 3)
	got := make([]swamp.Swamp, k)
	failed := make([]bool, k)
	withCancel := h.Choose("firstSummonerCancelled", 2) == 1
	if withDestroy {
		// an instance exists and is destroyed concurrently with the summons
		s0, err := hy.SummonSwamp(context.Background(), 1, n)
		h.Assert(err == nil, "first-summon")
		h.Go("destroyer", func() { s0.Destroy() })
	}
	for i := 0; i < k; i++ {
		i := i
		cancelled := i == 0 && withCancel
		h.Go("summoner", func() {
			ctx := context.Background()
			if cancelled {
				c, cancel := context.WithCancel(ctx)
				cancel() // the client went away: its context is already cancelled
				ctx = c
			}
			s, err := hy.SummonSwamp(ctx, 1, n)
			if err == nil {
				got[i] = s
			} else {
				failed[i] = true
			}
		})
	}
	h.AtQuiescence(func() {
		h.Assert(vhLive <= 1, "at-most-one-live-instance")
		cur := hy.getSwamp(n)
		for i := 0; i < k; i++ {
			h.Assert(got[i] != nil || failed[i] && i == 0 && withCancel, "summon-succeeds")
			if got[i] != nil && !withDestroy {
				h.Assert(got[i] == cur, "summoner-got-the-mapped-instance")
			}
		}
		h.Cover("end")
	})
}

// VerifC17SummonShutdown: k concurrent summoners of one name while the server is marked as
// shutting down at an arbitrary point: every summoner returns (an instance or the
// shutting-down error) - nobody stays parked on the per-name summoning slot. Termination is
// checked by the deadlock detector.
func VerifC17SummonShutdown(h *verifrt.H) {
	h.BackgroundLowPriority(true)
	hy := vhNew(h)
	n := name.New().Sanctuary("s").Realm("r").Swamp("w")
	k := h.Param("summoners", 3)
	returned := 0
	for i := 0; i < k; i++ {
		h.Go("summoner", func() {
			s, err := hy.SummonSwamp(context.Background(), 1, n)
			h.Assert(s != nil || err != nil, "summon-returns-instance-or-error")
			returned++
		})
	}
	h.Go("shutdown", func() { hy.MarkShuttingDown() })
	h.AtQuiescence(func() {
		h.Assert(returned == k, "every-summoner-returned")
		h.Cover("end")
	})
}
