//go:build verif

package hydra

import (
	"context"
	"time"

	"github.com/hydraide/hydraide/app/core/hydra/swamp"
	"github.com/hydraide/hydraide/app/core/hydra/swamp/chronicler"
	"github.com/hydraide/hydraide/app/core/hydra/swamp/metadata"
	"github.com/hydraide/hydraide/app/name"
	"github.com/hydraide/hydraide/app/verifrt"
)

// vhLive counts constructed-but-not-closed swamp objects (ghost state of the harness).
var vhLive, vhCreated int

// vhCreate replaces hydra.createNewSwamp (settings, hashing and the chronicler are C20/C21/C01
// territory): it builds a REAL in-memory swamp wired to the hydra's real callbacks.
func vhCreate(hy *hydra, islandID uint64, n name.Name) swamp.Swamp {
	vhLive++
	vhCreated++
	return swamp.New(n, time.Hour, nil, hy.eventCallbackFunction, hy.infoCallbackFunction, func(c name.Name) {
		vhLive--
		hy.closeEventCallbackFunction(c)
	}, metadata.NewNoop())
}

func vhNew(h *verifrt.H) *hydra {
	vhLive, vhCreated = 0, 0
	h.Stub("(*github.com/hydraide/hydraide/app/core/hydra.hydra).createNewSwamp", vhCreate)
	return New(nil, nil, nil, nil).(*hydra)
}

// VerifC18Summon: k concurrent summoners of one swamp name (optionally one with an already
// cancelled context, optionally an instance that is being destroyed meanwhile), every
// interleaving within the preemption bound: at no quiescent point are there two live instances,
// and every summoner that got an instance got the one the server has mapped.
func VerifC18Summon(h *verifrt.H) { vhSummon(h, false) }

// VerifC18SummonDestroy: the same while the current instance is being destroyed (the summoners
// have to wait for the close to complete and then create exactly one new instance). No timer
// elapses during the scenario (the 30 s close timeout is not reached).
func VerifC18SummonDestroy(h *verifrt.H) { vhSummon(h, true) }

func vhSummon(h *verifrt.H, withDestroy bool) {
	h.BackgroundLowPriority(true)
	hy := vhNew(h)
	n := name.New().Sanctuary("s").Realm("r").Swamp("w")
	k := h.Param("summoners", 3)
	got := make([]swamp.Swamp, k)
	failed := make([]bool, k)
	withCancel := h.Choose("firstSummonerCancelled", 2) == 1
	if withDestroy {
		// an instance exists and is destroyed concurrently with the summons
		s0, err := hy.SummonSwamp(context.Background(), 1, n)
		h.Assert(err == nil, "first-summon")
		h.Go("destroyer", func() { s0.Destroy() })
	}
	for i := 0; i < k; i++ {
		i := i
		cancelled := i == 0 && withCancel
		h.Go("summoner", func() {
			ctx := context.Background()
			if cancelled {
				c, cancel := context.WithCancel(ctx)
				cancel() // the client went away: its context is already cancelled
				ctx = c
			}
			s, err := hy.SummonSwamp(ctx, 1, n)
			if err == nil {
				got[i] = s
			} else {
				failed[i] = true
			}
		})
	}
	h.AtQuiescence(func() {
		h.Assert(vhLive <= 1, "at-most-one-live-instance")
		cur := hy.getSwamp(n)
		for i := 0; i < k; i++ {
			h.Assert(got[i] != nil || failed[i] && i == 0 && withCancel, "summon-succeeds")
			if got[i] != nil && !withDestroy {
				h.Assert(got[i] == cur, "summoner-got-the-mapped-instance")
			}
		}
		h.Cover("end")
	})
}

// VerifC17SummonShutdown: k concurrent summoners of one name while the server is marked as
// shutting down at an arbitrary point: every summoner returns (an instance or the
// shutting-down error) - nobody stays parked on the per-name summoning slot. Termination is
// checked by the deadlock detector.
func VerifC17SummonShutdown(h *verifrt.H) {
	h.BackgroundLowPriority(true)
	hy := vhNew(h)
	n := name.New().Sanctuary("s").Realm("r").Swamp("w")
	k := h.Param("summoners", 3)
	returned := 0
	for i := 0; i < k; i++ {
		h.Go("summoner", func() {
			s, err := hy.SummonSwamp(context.Background(), 1, n)
			h.Assert(s != nil || err != nil, "summon-returns-instance-or-error")
			returned++
		})
	}
	h.Go("shutdown", func() { hy.MarkShuttingDown() })
	h.AtQuiescence(func() {
		h.Assert(returned == k, "every-summoner-returned")
		h.Cover("end")
	})
}

// ---------- C16: acknowledged writes vs. eviction / auto-destroy / destroy ----------

var vhDir string

// vhCreatePersist replaces createNewSwamp by a REAL persistent swamp (real chronicler V2 and
// file format on the file-system model) wired to the hydra's real callbacks.
func vhCreatePersist(hy *hydra, islandID uint64, n name.Name) swamp.Swamp {
	vhLive++
	vhCreated++
	chr := chronicler.NewV2WithName(vhDir, 2, n.Get())
	chr.CreateDirectoryIfNotExists()
	return swamp.New(n, time.Duration(vhIdleSec)*time.Second, &swamp.FilesystemSettings{ChroniclerInterface: chr, WriteInterval: time.Second},
		hy.eventCallbackFunction, hy.infoCallbackFunction, func(c name.Name) {
			vhLive--
			hy.closeEventCallbackFunction(c)
		}, metadata.NewNoop())
}

var vhIdleSec = 3600

func vhPut(s swamp.Swamp, key string, v int64) {
	t := s.CreateTreasure(key)
	g := t.StartTreasureGuard(true)
	t.SetContentInt64(g, v)
	t.Save(g)
	t.ReleaseTreasureGuard(g)
}

// VerifC16Ack: a writer (summon, begin vigil, save k2, cease vigil => acknowledged) runs
// concurrently with one lifecycle event on the same persistent swamp: the delete of the last
// other record (auto-destroy), an explicit Destroy, or a graceful Close. Afterwards the swamp is
// summoned again from its file: an acknowledged write must be present unless the lifecycle
// event was an explicit Destroy that was requested after the acknowledgement... (a Destroy is an
// acknowledged "remove everything", so k2 may be gone only if the Destroy call STARTED after the
// write was acknowledged or overlapped it).
func VerifC16Ack(h *verifrt.H) {
	h.BackgroundLowPriority(true)
	vhLive, vhCreated = 0, 0
	vhDir = h.TempDir() + "/sw"
	vhIdleSec = 3600
	h.Stub("(*github.com/hydraide/hydraide/app/core/hydra.hydra).createNewSwamp", vhCreatePersist)
	hy := New(nil, nil, nil, nil).(*hydra)
	n := name.New().Sanctuary("s").Realm("r").Swamp("w")
	ctx := context.Background()
	s0, err := hy.SummonSwamp(ctx, 1, n)
	h.Assert(err == nil, "setup-summon")
	vhPut(s0, "k1", 1)
	event := h.Choose("lifecycleEvent", h.Param("events", 2)) // 0 last-record delete, 1 graceful close, 2 explicit destroy
	acked, sameInstance := false, false
	v := h.Int64("value")
	h.Assume(v != 0)
	h.Go("writer", func() {
		s, err := hy.SummonSwamp(ctx, 1, n)
		if err != nil {
			return
		}
		sameInstance = s == s0
		s.BeginVigil()
		vhPut(s, "k2", v)
		s.CeaseVigil()
		acked = true
	})
	h.Go("lifecycle", func() {
		s, err := hy.SummonSwamp(ctx, 1, n)
		if err != nil {
			return
		}
		switch event {
		case 0:
			s.BeginVigil()
			_ = s.DeleteTreasure("k1", false)
			s.CeaseVigil()
		case 1:
			// the idle-close tick of the swamp, under the assumption that the idle period has
			// elapsed (the writer was stalled for longer than the idle timeout): its guard is
			// "no active vigil and not closing", then Close()
			if !s.HasActiveVigils() && !s.IsClosing() {
				s.Close()
			}
		case 2:
			s.Destroy()
		}
	})
	h.AtQuiescence(func() {
		h.Assert(acked, "writer-finishes")
		// re-open: close whatever instance is live, then summon from the file
		if cur := hy.getSwamp(n); cur != nil && !cur.IsClosing() {
			cur.Close()
		}
		r, err := hy.SummonSwamp(ctx, 1, n)
		h.Assert(err == nil, "re-summon")
		if err != nil {
			return
		}
		t, gerr := r.GetTreasure("k2")
		if event == 2 && sameInstance {
			// an explicit Destroy overlapping a write into the instance being destroyed removes
			// everything: both serial orders are legal
			h.Cover("end")
			return
		}
		// The recorded findings concern a write into the very instance that is going away. A write
		// acknowledged by a NEW instance (created after the old one was gone) must always survive.
		h.Known("C16-auto-destroy-deletes-concurrent-write", "acknowledged-write", event == 0 && sameInstance)
		h.Known("C16-idle-close-between-summon-and-vigil", "acknowledged-write", event == 1 && sameInstance)
		h.Assert(gerr == nil, "acknowledged-write-present-after-reopen")
		h.ClearKnown()
		if gerr == nil {
			got, _ := t.GetContentInt64()
			h.Assert(got == v, "acknowledged-write-value-after-reopen")
		}
		h.Cover("end")
	})
}
