//go:build verif

package hydra

import (
	"context"
	"time"

	"github.com/google/uuid"
	"github.com/hydraide/hydraide/app/core/hydra/swamp"
	"github.com/hydraide/hydraide/app/core/hydra/swamp/chronicler"
	"github.com/hydraide/hydraide/app/core/hydra/swamp/metadata"
	"github.com/hydraide/hydraide/app/core/hydra/swamp/treasure"
	"github.com/hydraide/hydraide/app/name"
	"github.com/hydraide/hydraide/app/verifrt"
)

// vhLive counts constructed-but-not-closed swamp objects (ghost state of the harness).
var vhLive, vhCreated int

// vhCreate replaces hydra.createNewSwamp (settings, hashing and the chronicler are C20/C21/C01
// territory): it builds a REAL in-memory swamp wired to the hydra's real callbacks.
func vhCreate(hy *hydra, islandID uint64, n name.Name) swamp.Swamp {
	vhLive++
	vhCreated++
	return swamp.New(n, time.Hour, nil, hy.eventCallbackFunction, hy.infoCallbackFunction, func(c name.Name) {
		vhLive--
		hy.closeEventCallbackFunction(c)
	}, metadata.NewNoop())
}

func vhNew(h *verifrt.H) *hydra {
	vhLive, vhCreated = 0, 0
	h.Stub("(*github.com/hydraide/hydraide/app/core/hydra.hydra).createNewSwamp", vhCreate)
	return New(nil, nil, nil, nil).(*hydra)
}

// VerifC18Summon: k concurrent summoners of one swamp name (optionally one with an already
// cancelled context, optionally an instance that is being destroyed meanwhile), every
// interleaving within the preemption bound: at no quiescent point are there two live instances,
// and every summoner that got an instance got the one the server has mapped.
func VerifC18Summon(h *verifrt.H) { vhSummon(h, false) }

// VerifC18SummonDestroy: the same while the current instance is being destroyed (the summoners
// have to wait for the close to complete and then create exactly one new instance). No timer
// elapses during the scenario (the 30 s close timeout is not reached).
func VerifC18SummonDestroy(h *verifrt.H) { vhSummon(h, true) }

func vhSummon(h *verifrt.H, withDestroy bool) {
	h.BackgroundLowPriority(true)
	hy := vhNew(h)
	n := name.New().Sanctuary("s").Realm("r").Swamp("w")
	k := h.Param("summoners", 3)
	got := make([]swamp.Swamp, k)
	failed := make([]bool, k)
	withCancel := h.Choose("firstSummonerCancelled", 2) == 1
	if withDestroy {
		// an instance exists and is destroyed concurrently with the summons
		s0, err := hy.SummonSwamp(context.Background(), 1, n)
		h.Assert(err == nil, "first-summon")
		h.Go("destroyer", func() { s0.Destroy() })
	}
	for i := 0; i < k; i++ {
		i := i
		cancelled := i == 0 && withCancel
		h.Go("summoner", func() {
			ctx := context.Background()
			if cancelled {
				c, cancel := context.WithCancel(ctx)
				cancel() // the client went away: its context is already cancelled
				ctx = c
			}
			s, err := hy.SummonSwamp(ctx, 1, n)
			if err == nil {
				got[i] = s
			} else {
				failed[i] = true
			}
		})
	}
	h.AtQuiescence(func() {
		h.Assert(vhLive <= 1, "at-most-one-live-instance")
		cur := hy.getSwamp(n)
		for i := 0; i < k; i++ {
			h.Assert(got[i] != nil || failed[i] && i == 0 && withCancel, "summon-succeeds")
			if got[i] != nil && !withDestroy {
				h.Assert(got[i] == cur, "summoner-got-the-mapped-instance")
			}
		}
		h.Cover("end")
	})
}

// VerifC17SummonShutdown: k concurrent summoners of one name while the server is marked as
// shutting down at an arbitrary point: every summoner returns (an instance or the
// shutting-down error) - nobody stays parked on the per-name summoning slot. Termination is
// checked by the deadlock detector.
func VerifC17SummonShutdown(h *verifrt.H) {
	h.BackgroundLowPriority(true)
	hy := vhNew(h)
	n := name.New().Sanctuary("s").Realm("r").Swamp("w")
	k := h.Param("summoners", 3)
	returned := 0
	for i := 0; i < k; i++ {
		h.Go("summoner", func() {
			s, err := hy.SummonSwamp(context.Background(), 1, n)
			h.Assert(s != nil || err != nil, "summon-returns-instance-or-error")
			returned++
		})
	}
	h.Go("shutdown", func() { hy.MarkShuttingDown() })
	h.AtQuiescence(func() {
		h.Assert(returned == k, "every-summoner-returned")
		h.Cover("end")
	})
}

// ---------- C16: acknowledged writes vs. eviction / auto-destroy / destroy ----------

var vhDir string

// vhCreatePersist replaces createNewSwamp by a REAL persistent swamp (real chronicler V2 and
// file format on the file-system model) wired to the hydra's real callbacks.
func vhCreatePersist(hy *hydra, islandID uint64, n name.Name) swamp.Swamp {
	vhLive++
	vhCreated++
	chr := chronicler.NewV2WithName(vhDir, 2, n.Get())
	chr.CreateDirectoryIfNotExists()
	return swamp.New(n, time.Duration(vhIdleSec)*time.Second, &swamp.FilesystemSettings{ChroniclerInterface: chr, WriteInterval: time.Second},
		func(e *swamp.Event) {
			if e.StatusType == treasure.StatusDeleted {
				vhDeleteEventSeen = true
			}
			hy.eventCallbackFunction(e)
		}, hy.infoCallbackFunction, func(c name.Name) {
			vhLive--
			hy.closeEventCallbackFunction(c)
		}, metadata.NewNoop())
}

var vhIdleSec = 3600

// vhDeleteEventSeen: a delete event of a persistent harness swamp has been delivered (the swamp
// delivers it from inside the delete, before DeleteTreasure decides about auto-destroy).
var vhDeleteEventSeen = false

func vhPut(s swamp.Swamp, key string, v int64) {
	t := s.CreateTreasure(key)
	g := t.StartTreasureGuard(true)
	t.SetContentInt64(g, v)
	t.Save(g)
	t.ReleaseTreasureGuard(g)
}

// VerifC16Ack: a writer (summon, begin vigil, save k2, cease vigil => acknowledged) runs
// concurrently with one lifecycle event on the same persistent swamp: the delete of the last
// other record (auto-destroy), an explicit Destroy, or a graceful Close. Afterwards the swamp is
// summoned again from its file: an acknowledged write must be present unless the lifecycle
// event was an explicit Destroy that was requested after the acknowledgement... (a Destroy is an
// acknowledged "remove everything", so k2 may be gone only if the Destroy call STARTED after the
// write was acknowledged or overlapped it).
func VerifC16Ack(h *verifrt.H) {
	h.BackgroundLowPriority(true)
	vhLive, vhCreated = 0, 0
	vhDir = h.TempDir() + "/sw"
	vhIdleSec = 3600
	h.Stub("(*github.com/hydraide/hydraide/app/core/hydra.hydra).createNewSwamp", vhCreatePersist)
	hy := New(nil, nil, nil, nil).(*hydra)
	n := name.New().Sanctuary("s").Realm("r").Swamp("w")
	ctx := context.Background()
	s0, err := hy.SummonSwamp(ctx, 1, n)
	h.Assert(err == nil, "setup-summon")
	vhPut(s0, "k1", 1)
	s0.StartSendingEvents() // so that the delete event marks the point where the delete is done
	vhDeleteEventSeen = false
	event := h.Choose("lifecycleEvent", h.Param("events", 2)) // 0 last-record delete, 1 graceful close, 2 explicit destroy
	acked, sameInstance, landedBeforeDeleteEvent := false, false, false
	v := h.Int64("value")
	h.Assume(v != 0)
	h.Go("writer", func() {
		s, err := hy.SummonSwamp(ctx, 1, n)
		if err != nil {
			return
		}
		sameInstance = s == s0
		s.BeginVigil()
		vhPut(s, "k2", v)
		landedBeforeDeleteEvent = !vhDeleteEventSeen
		s.CeaseVigil()
		acked = true
	})
	h.Go("lifecycle", func() {
		s, err := hy.SummonSwamp(ctx, 1, n)
		if err != nil {
			return
		}
		switch event {
		case 0:
			s.BeginVigil()
			_ = s.DeleteTreasure("k1", false)
			s.CeaseVigil()
		case 1:
			// the idle-close tick of the swamp, under the assumption that the idle period has
			// elapsed (the writer was stalled for longer than the idle timeout): its guard is
			// "no active vigil and not closing", then Close()
			if !s.HasActiveVigils() && !s.IsClosing() {
				s.Close()
			}
		case 2:
			s.Destroy()
		}
	})
	h.AtQuiescence(func() {
		h.Assert(acked, "writer-finishes")
		// re-open: close whatever instance is live, then summon from the file
		if cur := hy.getSwamp(n); cur != nil && !cur.IsClosing() {
			cur.Close()
		}
		r, err := hy.SummonSwamp(ctx, 1, n)
		h.Assert(err == nil, "re-summon")
		if err != nil {
			return
		}
		t, gerr := r.GetTreasure("k2")
		if event == 2 && sameInstance {
			// an explicit Destroy overlapping a write into the instance being destroyed removes
			// everything: both serial orders are legal
			h.Cover("end")
			return
		}
		// The recorded findings concern a write into the very instance that is going away. A write
		// acknowledged by a NEW instance (created after the old one was gone) must always survive.
		// The recorded auto-destroy finding: DeleteTreasure looks at the record count AFTER the
		// delete is complete (the delete event has been delivered by then); only a write that
		// lands after that point can be destroyed. A write that was in the swamp before the
		// delete event went out is counted and must survive.
		h.Known("C16-auto-destroy-deletes-concurrent-write", "acknowledged-write", event == 0 && sameInstance && !landedBeforeDeleteEvent)
		h.Known("C16-idle-close-between-summon-and-vigil", "acknowledged-write", event == 1 && sameInstance)
		h.Assert(gerr == nil, "acknowledged-write-present-after-reopen")
		h.ClearKnown()
		if gerr == nil {
			got, _ := t.GetContentInt64()
			h.Assert(got == v, "acknowledged-write-value-after-reopen")
		}
		h.Cover("end")
	})
}

// ---------- C19: subscribers ----------

type c19ev struct {
	status treasure.TreasureStatus
	key    string
	val    int64
}

func c19save(s swamp.Swamp, key string, v int64) treasure.TreasureStatus {
	t := s.CreateTreasure(key)
	g := t.StartTreasureGuard(true)
	defer t.ReleaseTreasureGuard(g)
	t.SetContentInt64(g, v)
	return t.Save(g)
}

// VerifC19Events: a client subscribes to / unsubscribes from a swamp around a history of up to
// maxSteps writes (create, change with a symbolic value, identical re-save, delete) on two keys
// of a real in-memory swamp behind the real hydra fan-out: while subscribed it receives exactly
// one event per committed change, in commit order, with the committed value; none for saves
// that change nothing; none while unsubscribed; a new subscription after the last unsubscribe
// works again.
func VerifC19Events(h *verifrt.H) {
	h.BackgroundLowPriority(true)
	hy := vhNew(h)
	n := name.New().Sanctuary("s").Realm("r").Swamp("w")
	ctx := context.Background()
	s, err := hy.SummonSwamp(ctx, 1, n)
	h.Assert(err == nil, "summon")
	id := uuid.UUID{1}
	var got []c19ev
	cb := func(e *swamp.Event) {
		ev := c19ev{status: e.StatusType}
		switch {
		case e.StatusType == treasure.StatusDeleted && e.DeletedTreasure != nil:
			ev.key = e.DeletedTreasure.GetKey()
		case e.Treasure != nil:
			ev.key = e.Treasure.GetKey()
			ev.val, _ = e.Treasure.GetContentInt64()
		}
		got = append(got, ev)
	}
	var want []c19ev
	subscribed := false
	keys := []string{"a", "b"}
	var present [2]bool
	var value [2]int64
	steps := h.Len("steps", 1, h.Param("maxSteps", 3))
	for i := 0; i < steps; i++ {
		switch h.Choose("step", 5) {
		case 0:
			h.Assert(hy.SubscribeToSwampEvents(id, n, cb) == nil, "subscribe-ok")
			subscribed = true
		case 1:
			h.Assert(hy.UnsubscribeFromSwampEvents(id, n) == nil, "unsubscribe-ok")
			subscribed = false
		case 2: // write a (possibly new, possibly changed, possibly identical) value
			k := h.Choose("key", 2)
			v := h.Int64("value")
			h.Assume(v != 0)
			st := c19save(s, keys[k], v)
			switch {
			case !present[k]:
				h.Assert(st == treasure.StatusNew, "save-status-new")
				if subscribed {
					want = append(want, c19ev{treasure.StatusNew, keys[k], v})
				}
			case value[k] != v:
				h.Assert(st == treasure.StatusModified, "save-status-modified")
				if subscribed {
					want = append(want, c19ev{treasure.StatusModified, keys[k], v})
				}
			default:
				// identical re-save: nothing changed, no event
				h.Known("C19-identical-resave-reports-modified", "identical-resave", true)
				h.Assert(st == treasure.StatusSame, "identical-resave-status-same")
				h.ClearKnown()
				if st != treasure.StatusSame && subscribed {
					want = append(want, c19ev{treasure.StatusModified, keys[k], v}) // follow the implementation so that later steps stay comparable
				}
			}
			present[k], value[k] = true, v
		case 3:
			k := h.Choose("key", 2)
			derr := s.DeleteTreasure(keys[k], false)
			h.Assert((derr == nil) == present[k], "delete-result")
			if present[k] && subscribed {
				want = append(want, c19ev{treasure.StatusDeleted, keys[k], 0})
			}
			present[k] = false
			if s.IsClosing() { // the swamp emptied and destroyed itself: summon a new instance
				s, err = hy.SummonSwamp(ctx, 1, n)
				h.Assert(err == nil, "re-summon")
			}
		case 4: // a read produces no event
			_, _ = s.GetTreasure(keys[h.Choose("key", 2)])
		}
		h.Assert(len(got) == len(want), "one-event-per-committed-change-while-subscribed")
		if len(got) != len(want) {
			return
		}
		for j := range got {
			h.Assert(got[j].status == want[j].status && got[j].key == want[j].key, "events-in-commit-order")
			if want[j].status != treasure.StatusDeleted {
				h.Assert(got[j].val == want[j].val, "event-carries-committed-value")
			}
		}
	}
	h.Cover("end")
}
