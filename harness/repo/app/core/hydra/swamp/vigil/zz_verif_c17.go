//go:build verif

package vigil

import (
	"github.com/hydraide/hydraide/app/verifrt"
)

// VerifC17Vigil: a waiter and m in-flight operations that cease, every interleaving of the
// visible operations (atomics, mutex, cond) within the preemption bound. Once every operation
// has ceased the waiter must return (no parked waiter with count 0 = deadlock), and it returns
// only when the count is 0.
func VerifC17Vigil(h *verifrt.H) {
	v := New()
	m := h.Len("inFlight", 1, h.Param("maxInFlight", 2))
	for i := 0; i < m; i++ {
		v.BeginVigil()
	}
	for i := 0; i < m; i++ {
		h.Go("op", func() { v.CeaseVigil() })
	}
	returned := false
	h.Go("waiter", func() {
		v.WaitForActiveVigilsClosed()
		h.Assert(!v.HasActiveVigils(), "returns-only-at-zero")
		returned = true
	})
	h.AtQuiescence(func() {
		// a parked waiter with every operation finished is reported by the deadlock detector
		_ = returned
		h.Cover("end")
	})
}
