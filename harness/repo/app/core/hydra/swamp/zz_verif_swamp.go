//go:build verif

package swamp

import (
	"strings"
	"time"

	"github.com/hydraide/hydraide/app/core/hydra/swamp/chronicler"
	v2 "github.com/hydraide/hydraide/app/core/hydra/swamp/chronicler/v2"
	"github.com/hydraide/hydraide/app/core/hydra/swamp/metadata"
	"github.com/hydraide/hydraide/app/core/hydra/swamp/treasure"
	"github.com/hydraide/hydraide/app/core/hydra/swamp/treasure/msgpackpatch"
	"github.com/hydraide/hydraide/app/name"
	"github.com/hydraide/hydraide/app/verifrt"
)

// vfMem creates a real in-memory swamp (no chronicler); events are collected by the callback.
func vfMem(h *verifrt.H, events *[]*Event) Swamp {
	n := name.New().Sanctuary("s").Realm("r").Swamp("w")
	return New(n, time.Hour, nil, func(e *Event) {
		if events != nil {
			*events = append(*events, e)
		}
	}, func(*Info) {}, func(name.Name) {}, metadata.NewNoop())
}

func VerifProbeSwamp(h *verifrt.H) {
	h.BackgroundLowPriority(true)
	s := vfMem(h, nil)
	t := s.CreateTreasure("a")
	g := t.StartTreasureGuard(true)
	t.SetContentInt64(g, h.Int64("v"))
	st := t.Save(g)
	t.ReleaseTreasureGuard(g)
	h.Observe("status", int(st))
	got, err := s.GetTreasure("a")
	h.Assert(err == nil, "get")
	v, _ := got.GetContentInt64()
	h.Observe("v", v)
	h.Assert(s.CountTreasures() == 1, "count")
	h.Cover("end")
}

var vfEmptyBody = []byte{0xC7, 0x00, 0x80} // msgpack magic prefix + empty map

func vfPut(s Swamp, key string, exp *time.Time) {
	t := s.CreateTreasure(key)
	g := t.StartTreasureGuard(true)
	t.SetContentByteArray(g, vfEmptyBody)
	if exp != nil {
		t.SetExpirationTime(g, *exp)
	}
	t.Save(g)
	t.ReleaseTreasureGuard(g)
}

// VerifC30Expiry: one record whose expiry e (UnixNano; symbolic: 0, negative, past, future) is
// set through Set / patch-meta set / patch-meta slide / patch-meta clear, with the expiry index
// built before or after the write (hot vs cold path). Every expiry-aware path must agree with
// "e != 0 && e < now": stored value, IsExpired, membership in the expiry-ordered index,
// expired-shift and expired-patch claims.
func VerifC30Expiry(h *verifrt.H) {
	h.BackgroundLowPriority(true)
	s := vfMem(h, nil)
	warm := h.Choose("indexBuiltBeforeWrite", 2) == 1
	if warm {
		s.GetTreasuresByBeacon(BeaconTypeExpirationTime, IndexOrderAsc, 0, 10, nil, nil)
	}
	want := c30write(h, s)
	c30check(h, s, want)
	h.Cover("end")
}

// c30write sets the expiry of record "k" to a symbolic instant through one of the four write
// paths and returns the expiry (UnixNano, 0 = none) the record must carry afterwards.
func c30write(h *verifrt.H, s Swamp) int64 {
	e := h.Int64("expiry")
	et := time.Unix(0, e).UTC()
	want := e
	switch h.Choose("setPath", 4) {
	case 0:
		vfPut(s, "k", &et)
	case 1:
		vfPut(s, "k", nil)
		r, err := s.PatchFields("k", nil, nil, PatchFieldsOptions{Meta: &PatchFieldsMeta{SetExpiredAt: et}})
		h.Assert(err == nil && r.Status == PatchStatusPatched, "patch-meta-set-ok")
	case 2:
		e0 := time.Unix(0, h.Int64("oldExpiry")).UTC()
		vfPut(s, "k", &e0)
		r, err := s.PatchFields("k", nil, nil, PatchFieldsOptions{Meta: &PatchFieldsMeta{SetExpiredAt: et}})
		h.Assert(err == nil && r.Status == PatchStatusPatched, "patch-meta-slide-ok")
	case 3:
		vfPut(s, "k", &et)
		r, err := s.PatchFields("k", nil, nil, PatchFieldsOptions{Meta: &PatchFieldsMeta{ClearExpiredAt: true}})
		h.Assert(err == nil && r.Status == PatchStatusPatched, "patch-meta-clear-ok")
		want = 0
	}
	return want
}

// c30check reads record "k" through every expiry-aware path of the swamp and compares each
// verdict with "want != 0 && want < now".
func c30check(h *verifrt.H, s Swamp, want int64) {
	n0 := time.Now().UTC().UnixNano()
	tr, err := s.GetTreasure("k")
	h.Assert(err == nil, "record-present")
	if err != nil {
		return
	}
	h.Assert(tr.GetExpirationTime() == want, "expiry-stored-as-given")
	expired := tr.IsExpired()
	list, lerr := s.GetTreasuresByBeacon(BeaconTypeExpirationTime, IndexOrderAsc, 0, 10, nil, nil)
	h.Assert(lerr == nil, "expiry-index-read-ok")
	h.Assert((len(list) == 1) == (want != 0), "expiry-index-holds-exactly-records-with-expiry")
	claimed := false
	if h.Choose("claimPath", 2) == 0 {
		got, cerr := s.CloneAndDeleteExpiredTreasures(1)
		h.Assert(cerr == nil, "shift-expired-ok")
		claimed = len(got) == 1
	} else {
		got, _, cerr := s.PatchExpired(1, nil, nil, &PatchFieldsMeta{SetUpdatedAt: true}, nil, nil, 0)
		h.Assert(cerr == nil, "patch-expired-ok")
		claimed = len(got) == 1
		// the patch did not touch the expiry: the record is exactly as expired as before, so
		// it is still in the expiry index (read in the other direction) and, the clock never
		// going back, a record claimed as expired once is claimable again
		list2, l2err := s.GetTreasuresByBeacon(BeaconTypeExpirationTime, IndexOrderDesc, 0, 10, nil, nil)
		h.Assert(l2err == nil, "expiry-index-read-ok")
		h.Assert((len(list2) == 1) == (want != 0), "after-expired-patch-expiry-index-still-holds-the-record")
		tr2, gerr := s.GetTreasure("k")
		h.Assert(gerr == nil && tr2.GetExpirationTime() == want, "after-expired-patch-expiry-unchanged")
		again, aerr := s.CloneAndDeleteExpiredTreasures(1)
		h.Assert(aerr == nil, "shift-expired-ok")
		if claimed {
			h.Assert(len(again) == 1, "record-patched-as-expired-is-still-claimable")
		}
	}
	n1 := time.Now().UTC().UnixNano()
	if want != 0 && want < n0 {
		h.Assert(expired, "past-expiry-is-expired")
		h.Assert(claimed, "past-expiry-is-claimable")
	}
	if want == 0 || want >= n1 {
		h.Assert(!expired, "no-or-future-expiry-is-not-expired")
		h.Assert(!claimed, "no-or-future-expiry-is-not-claimable")
	}
}

// VerifC30Reload: the same four write paths on a PERSISTENT swamp (real chronicler V2 on the
// file-system model, immediate-write and interval mode); the swamp is closed and summoned again
// from its file, and only then read through every expiry-aware path: the reloaded record carries
// the expiry that was set / slid / cleared, and IsExpired, the expiry index (always a cold build
// here), expired-shift and expired-patch agree with it.
func VerifC30Reload(h *verifrt.H) {
	h.BackgroundLowPriority(true)
	dir := h.TempDir() + "/sw"
	wi := time.Duration(h.Choose("immediateWrite", 2)) * time.Second // 0 = immediate-write mode
	s := vfPersist(h, dir, time.Second-wi, nil)
	want := c30write(h, s)
	s.Close()
	r := vfPersist(h, dir, time.Second, nil)
	h.Cover("reloaded")
	c30check(h, r, want)
	r.Close()
	h.Cover("end")
}

// ---------- C07 ----------

type c07rec struct {
	key                      string
	created, modified, expir int64
	val                      int64
}

func c07put(s Swamp, r c07rec) {
	t := s.CreateTreasure(r.key)
	g := t.StartTreasureGuard(true)
	t.SetContentInt64(g, r.val)
	if r.created != 0 {
		t.SetCreatedAt(g, time.Unix(0, r.created).UTC())
	}
	if r.modified != 0 {
		t.SetModifiedAt(g, time.Unix(0, r.modified).UTC())
	}
	if r.expir != 0 {
		t.SetExpirationTime(g, time.Unix(0, r.expir).UTC())
	}
	t.Save(g)
	t.ReleaseTreasureGuard(g)
}

func c07sym(h *verifrt.H, key string, bt BeaconType) c07rec {
	// only the attribute the chosen index sorts by is symbolic (small signed range: ties and
	// zero = "attribute absent" are likely; the solver still decides every relative order)
	r := c07rec{key: key, created: 1, modified: 1, expir: 1, val: 1}
	v := int64(h.IntRange("attr", -2, 3))
	switch bt {
	case BeaconTypeCreationTime:
		r.created = v
	case BeaconTypeUpdateTime:
		r.modified = v
	case BeaconTypeExpirationTime:
		r.expir = v
	default:
		r.val = v
	}
	return r
}

func (r c07rec) attr(bt BeaconType) int64 {
	switch bt {
	case BeaconTypeCreationTime:
		return r.created
	case BeaconTypeUpdateTime:
		return r.modified
	case BeaconTypeExpirationTime:
		return r.expir
	}
	return r.val
}

// VerifC07Index: records with symbolic sort attributes; the index is optionally built first
// (hot maintenance) and then one mutation happens (insert / update that moves the sort value /
// delete); an ordered read with symbolic offset, limit and time window must return exactly the
// records carrying the attribute, sorted, restricted to [from, to), then paged (ties in any order).
func VerifC07Index(h *verifrt.H) {
	h.BackgroundLowPriority(true)
	s := vfMem(h, nil)
	types := []BeaconType{BeaconTypeKey, BeaconTypeCreationTime, BeaconTypeUpdateTime, BeaconTypeExpirationTime, BeaconTypeValueInt64}
	bt := types[h.Choose("indexType", len(types))]
	order := IndexOrderAsc
	if h.Choose("descending", 2) == 1 {
		order = IndexOrderDesc
	}
	mutation := h.Choose("mutation", h.Param("mutations", 4))
	recs := []c07rec{c07sym(h, "a", bt), c07sym(h, "b", bt)}
	for _, r := range recs {
		c07put(s, r)
	}
	if h.Choose("indexBuiltFirst", 2) == 1 {
		s.GetTreasuresByBeacon(bt, order, 0, 0, nil, nil)
	}
	switch mutation {
	case 1:
		r := c07sym(h, "c", bt)
		c07put(s, r)
		recs = append(recs, r)
	case 2: // update that may move the record's sort value
		r := c07sym(h, "a", bt)
		t, err := s.GetTreasure("a")
		h.Assert(err == nil, "update-get")
		g := t.StartTreasureGuard(true)
		t.SetContentInt64(g, r.val)
		t.SetCreatedAt(g, time.Unix(0, r.created).UTC())
		t.SetModifiedAt(g, time.Unix(0, r.modified).UTC())
		t.SetExpirationTime(g, time.Unix(0, r.expir).UTC())
		t.Save(g)
		t.ReleaseTreasureGuard(g)
		recs[0] = r
	case 3:
		h.Assert(s.DeleteTreasure("b", false) == nil, "delete")
		recs = recs[:1]
	}
	from := h.IntRange("from", 0, h.Param("maxPage", 3))
	limit := h.IntRange("limit", 0, h.Param("maxPage", 3))
	var fromT, toT *time.Time
	timeBased := bt == BeaconTypeCreationTime || bt == BeaconTypeUpdateTime || bt == BeaconTypeExpirationTime
	lo, hi := int64(0), int64(0)
	if timeBased && h.Choose("fromTime", 2) == 1 {
		lo = int64(h.IntRange("fromTimeValue", -2, 3))
		t := time.Unix(0, lo).UTC()
		fromT = &t
	}
	if timeBased && h.Choose("toTime", 2) == 1 {
		hi = int64(h.IntRange("toTimeValue", -2, 3))
		t := time.Unix(0, hi).UTC()
		toT = &t
	}
	got, err := s.GetTreasuresByBeacon(bt, order, int32(from), int32(limit), fromT, toT)
	h.Assert(err == nil, "index-read-ok")
	// reference: filter, sort, page
	var sel []c07rec
	for _, r := range recs {
		a := r.attr(bt)
		if timeBased && (a == 0 || fromT != nil && a < lo || toT != nil && a >= hi) {
			continue
		}
		sel = append(sel, r)
	}
	less := func(x, y c07rec) bool {
		if bt == BeaconTypeKey {
			if order == IndexOrderAsc {
				return x.key < y.key
			}
			return x.key > y.key
		}
		if order == IndexOrderAsc {
			return x.attr(bt) < y.attr(bt)
		}
		return x.attr(bt) > y.attr(bt)
	}
	for i := 1; i < len(sel); i++ {
		for j := i; j > 0 && less(sel[j], sel[j-1]); j-- {
			sel[j], sel[j-1] = sel[j-1], sel[j]
		}
	}
	if from < len(sel) {
		sel = sel[from:]
	} else {
		sel = nil
	}
	if limit != 0 && limit < len(sel) {
		sel = sel[:limit]
	}
	h.Assert(len(got) == len(sel), "index-page-size")
	if len(got) == len(sel) {
		for i, t := range got {
			var a int64
			switch bt {
			case BeaconTypeKey:
				h.Assert(t.GetKey() == sel[i].key, "index-page-sorted-by-key")
				continue
			case BeaconTypeCreationTime:
				a = t.GetCreatedAt()
			case BeaconTypeUpdateTime:
				a = t.GetModifiedAt()
			case BeaconTypeExpirationTime:
				a = t.GetExpirationTime()
			default:
				a, _ = t.GetContentInt64()
			}
			h.Assert(a == sel[i].attr(bt), "index-page-sorted-and-ranged")
			for j := 0; j < i; j++ {
				h.Assert(got[j].GetKey() != t.GetKey(), "index-page-no-duplicates")
			}
		}
	}
	h.Cover("end")
}

// VerifC07Move: hot maintenance of an already built ordered index among THREE records: one
// record is updated so that its sort value moves (possibly onto another record's value, not
// necessarily its neighbour's), then optionally deleted; the full index read returns every
// live record carrying the attribute exactly once, sorted.
func VerifC07Move(h *verifrt.H) {
	h.BackgroundLowPriority(true)
	s := vfMem(h, nil)
	types := []BeaconType{BeaconTypeCreationTime, BeaconTypeUpdateTime, BeaconTypeExpirationTime, BeaconTypeValueInt64}
	bt := types[h.Choose("indexType", len(types))]
	order := IndexOrderAsc
	if h.Choose("descending", 2) == 1 {
		order = IndexOrderDesc
	}
	timeBased := bt != BeaconTypeValueInt64
	recs := []c07rec{c07sym(h, "a", bt), c07sym(h, "b", bt), c07sym(h, "c", bt)}
	for _, r := range recs {
		c07put(s, r)
	}
	s.GetTreasuresByBeacon(bt, order, 0, 0, nil, nil) // the index exists before the update
	moved := h.Choose("movedRecord", 3)
	r := c07sym(h, recs[moved].key, bt)
	t, err := s.GetTreasure(r.key)
	h.Assert(err == nil, "update-get")
	g := t.StartTreasureGuard(true)
	t.SetContentInt64(g, r.val)
	t.SetCreatedAt(g, time.Unix(0, r.created).UTC())
	t.SetModifiedAt(g, time.Unix(0, r.modified).UTC())
	t.SetExpirationTime(g, time.Unix(0, r.expir).UTC())
	t.Save(g)
	t.ReleaseTreasureGuard(g)
	recs[moved] = r
	if h.Choose("thenDelete", 2) == 1 {
		h.Assert(s.DeleteTreasure(r.key, false) == nil, "delete")
		recs = append(recs[:moved:moved], recs[moved+1:]...)
	}
	got, err := s.GetTreasuresByBeacon(bt, order, 0, 0, nil, nil)
	h.Assert(err == nil, "index-read-ok")
	want := 0
	for _, x := range recs {
		if !timeBased || x.attr(bt) != 0 {
			want++
		}
	}
	h.Assert(len(got) == want, "moved-index-holds-every-live-record-once")
	for i, x := range got {
		var a int64
		switch bt {
		case BeaconTypeCreationTime:
			a = x.GetCreatedAt()
		case BeaconTypeUpdateTime:
			a = x.GetModifiedAt()
		case BeaconTypeExpirationTime:
			a = x.GetExpirationTime()
		default:
			a, _ = x.GetContentInt64()
		}
		live := false
		for _, y := range recs {
			if y.key == x.GetKey() {
				live = true
				h.Assert(a == y.attr(bt), "moved-index-entry-carries-current-value")
			}
		}
		h.Assert(live, "moved-index-has-no-deleted-record")
		for j := 0; j < i; j++ {
			h.Assert(got[j].GetKey() != x.GetKey(), "moved-index-no-duplicates")
		}
		if i > 0 {
			var p int64
			switch bt {
			case BeaconTypeCreationTime:
				p = got[i-1].GetCreatedAt()
			case BeaconTypeUpdateTime:
				p = got[i-1].GetModifiedAt()
			case BeaconTypeExpirationTime:
				p = got[i-1].GetExpirationTime()
			default:
				p, _ = got[i-1].GetContentInt64()
			}
			h.Assert(order == IndexOrderAsc && p <= a || order == IndexOrderDesc && p >= a, "moved-index-sorted")
		}
	}
	h.Cover("end")
}

// VerifC12Budget: ONE cap-bearing expired-patch batch on a swamp whose three expired records
// each match the cap filter already or not (by choice), in any expiry order relative to their
// status, with a symbolic cap (1..2) and HowMany (1..3): if the matches were within the cap
// before, they are within the cap afterwards, whatever the batch moved into the filter.
func VerifC12Budget(h *verifrt.H) {
	h.BackgroundLowPriority(true)
	s := vfMem(h, nil)
	matches := func(t treasure.Treasure) bool {
		raw, err := t.GetContentByteArray()
		return err == nil && len(raw) == 7 && raw[6] == 'd'
	}
	keys := []string{"a", "b", "c"}
	before := 0
	for i, k := range keys {
		body := byte('p')
		if h.Choose("alreadyMatching", 2) == 1 {
			body = 'd'
			before++
		}
		c11put(s, k, body, c11Past+int64(i))
	}
	capMax := h.IntRange("cap", 1, 2)
	h.Assume(before <= capMax)
	howMany := h.IntRange("howMany", 1, 3)
	if h.Choose("indexBuiltBefore", 2) == 1 {
		s.GetTreasuresByBeacon(BeaconTypeExpirationTime, IndexOrderAsc, 0, 0, nil, nil)
	}
	ops := []msgpackpatch.Op{{Kind: msgpackpatch.OpSet, Path: "s", Value: []byte{0xa1, 'd'}}}
	s.BeginVigil()
	_, _, err := s.PatchExpired(int32(howMany), ops, nil, &PatchFieldsMeta{SetExpiredAt: time.Unix(0, c11Future).UTC()}, nil, matches, int32(capMax))
	s.CeaseVigil()
	h.Assert(err == nil, "cap-batch-ok")
	h.Assert(int(s.CountMatchingTreasures(matches)) <= capMax, "matches-never-exceed-cap")
	h.Cover("end")
}

// ---------- persistent swamps (real chronicler V2 on the file-system model) ----------

func vfPersist(h *verifrt.H, dir string, wi time.Duration, closed *int) Swamp {
	n := name.New().Sanctuary("s").Realm("r").Swamp("w")
	chr := chronicler.NewV2WithName(dir, 2, n.Get())
	chr.CreateDirectoryIfNotExists()
	return New(n, time.Hour, &FilesystemSettings{ChroniclerInterface: chr, WriteInterval: wi}, func(*Event) {}, func(*Info) {}, func(name.Name) {
		if closed != nil {
			*closed++
		}
	}, metadata.NewNoop())
}

type c05snap struct {
	exists  bool
	val     int64
	expiry  int64
	created int64
}

func c05take(s Swamp, key string) c05snap {
	t, err := s.GetTreasure(key)
	if err != nil {
		return c05snap{}
	}
	v, _ := t.GetContentInt64()
	return c05snap{exists: true, val: v, expiry: t.GetExpirationTime(), created: t.GetCreatedAt()}
}

// VerifC05History: a persistent swamp (real chronicler V2, real file format, gob contract model)
// goes through sessions: in every session up to maxOps operations (set value+expiry, set the
// identical value with a new expiry, delete) on two keys with symbolic non-zero values, then the
// swamp closes and is summoned again from its file: every key has the same existence, value and
// created/expiry metadata as before the close.
func VerifC05History(h *verifrt.H) {
	h.BackgroundLowPriority(true)
	dir := h.TempDir() + "/sw"
	wi := time.Duration(h.Choose("immediateWrite", 2)) * time.Second // 0 = immediate-write mode
	keys := []string{"a", "b"}
	sessions := h.Param("sessions", 2)
	for se := 0; se < sessions; se++ {
		s := vfPersist(h, dir, time.Second-wi, nil)
		if se > 0 {
			h.Cover("reloaded")
		}
		nOps := h.Len("ops", 0, h.Param("maxOps", 2))
		for i := 0; i < nOps; i++ {
			k := keys[h.Choose("key", 2)]
			switch h.Choose("op", 3) {
			case 0, 1: // set (1: keep the current value, move only the expiry)
				t := s.CreateTreasure(k)
				g := t.StartTreasureGuard(true)
				v := h.Int64("value")
				if cur, err := t.GetContentInt64(); err == nil && h.Choose("sameValue", 2) == 1 {
					v = cur
				}
				t.SetContentInt64(g, v)
				e := h.Int64("expiry")
				t.SetExpirationTime(g, time.Unix(0, e).UTC())
				t.Save(g)
				t.ReleaseTreasureGuard(g)
			case 2:
				_ = s.DeleteTreasure(k, false)
			}
		}
		var before [2]c05snap
		for i, k := range keys {
			before[i] = c05take(s, k)
		}
		if s.IsClosing() {
			// the last delete emptied and destroyed the swamp: nothing may come back
			before = [2]c05snap{}
		} else {
			s.Close()
		}
		r := vfPersist(h, dir, time.Second, nil)
		for i, k := range keys {
			after := c05take(r, k)
			h.Assert(after.exists == before[i].exists, "reload-same-existence")
			if after.exists && before[i].exists {
				h.Assert(after.val == before[i].val, "reload-same-value")
				h.Assert(after.expiry == before[i].expiry && after.created == before[i].created, "reload-same-metadata")
			}
		}
		r.Close()
	}
	h.Cover("end")
}

// ---------- C26 (stored data survives malformed records) ----------

// VerifC26Reload: records are written to a persistent swamp (immediate-write or within one
// write interval); at a symbolic position of the batch stands a record the file format cannot
// hold - an empty key or a key of 65536 bytes - as the gateway passes such keys through. After
// Close and a re-summon from the file every well-formed record that was acknowledged is there
// with its value: a malformed record never takes stored data of valid requests with it.
func VerifC26Reload(h *verifrt.H) {
	h.BackgroundLowPriority(true)
	dir := h.TempDir() + "/sw"
	wi := time.Duration(h.Choose("immediateWrite", 2)) * time.Second
	s := vfPersist(h, dir, time.Second-wi, nil)
	n := h.Param("records", 3)
	bad := h.Choose("malformedPosition", n+1) // n: none
	badKey := ""
	if h.Choose("malformedKind", 2) == 1 {
		badKey = strings.Repeat("k", 65536)
	}
	good := []string{"good-1", "good-2", "good-3", "good-4"}
	vals := make([]int64, n)
	acked := make([]bool, n)
	for i := 0; i < n; i++ {
		k := good[i]
		if i == bad {
			k = badKey
		}
		vals[i] = h.Int64("value")
		st := c09set(s, k, vals[i])
		acked[i] = st == treasure.StatusNew
	}
	s.Close()
	r := vfPersist(h, dir, time.Second, nil)
	for i := 0; i < n; i++ {
		if i == bad || !acked[i] {
			continue
		}
		t, err := r.GetTreasure(good[i])
		h.Assert(err == nil, "valid-record-survives-a-malformed-one")
		if err == nil {
			v, e := t.GetContentInt64()
			h.Assert(e == nil && v == vals[i], "valid-record-value-survives-a-malformed-one")
		}
	}
	r.Close()
	h.Cover("end")
}

// VerifC01Swamp: last-writer-wins through the whole storage stack (real swamp, real chronicler
// V2 batch writer, real file format on the FS model; immediate-write or one write interval):
// up to maxOps set/delete operations over two well-formed keys and one key the file format
// cannot hold (empty or 65536 bytes) with symbolic values, then Close and a re-summon from the
// file: every well-formed key has exactly the existence and value of its last operation.
func VerifC01Swamp(h *verifrt.H) {
	h.BackgroundLowPriority(true)
	dir := h.TempDir() + "/sw"
	wi := time.Duration(h.Choose("immediateWrite", 2)) * time.Second
	s := vfPersist(h, dir, time.Second-wi, nil)
	badKey := ""
	if h.Choose("malformedKind", 2) == 1 {
		badKey = strings.Repeat("k", 65536)
	}
	keys := []string{"good-a", "good-b", badKey}
	type st struct {
		exists bool
		val    int64
	}
	model := map[string]st{}
	n := h.Len("ops", 1, h.Param("maxOps", 3))
	for i := 0; i < n; i++ {
		k := keys[h.Choose("key", 3)]
		if h.Choose("delete", 2) == 1 {
			if s.IsClosing() {
				break
			}
			_ = s.DeleteTreasure(k, false)
			model[k] = st{}
			continue
		}
		if s.IsClosing() {
			break
		}
		v := h.Int64("value")
		c09set(s, k, v)
		model[k] = st{true, v}
	}
	if s.IsClosing() {
		// the last delete emptied and destroyed the swamp
		for k := range model {
			model[k] = st{}
		}
	} else {
		s.Close()
	}
	r := vfPersist(h, dir, time.Second, nil)
	for _, k := range keys[:2] {
		t, err := r.GetTreasure(k)
		want := model[k]
		h.Assert((err == nil) == want.exists, "reload-existence-is-last-writer-wins")
		if err == nil && want.exists {
			v, e := t.GetContentInt64()
			h.Assert(e == nil && v == want.val, "reload-value-is-last-writer-wins")
		}
	}
	r.Close()
	h.Cover("end")
}

// VerifC05Recreate: delete followed by re-creation inside one open session of a persistent
// swamp: key a is written, deleted (key b keeps the swamp alive), optionally something else is
// written, then a is written again with a symbolic value and expiry - the solver is free to make
// them equal to the first version - and the swamp is closed and re-summoned: a exists with the
// second value and expiry, b is untouched.
func VerifC05Recreate(h *verifrt.H) {
	h.BackgroundLowPriority(true)
	dir := h.TempDir() + "/sw"
	wi := time.Duration(h.Choose("immediateWrite", 2)) * time.Second
	s := vfPersist(h, dir, time.Second-wi, nil)
	set := func(k string, v, e int64) {
		t := s.CreateTreasure(k)
		g := t.StartTreasureGuard(true)
		t.SetContentInt64(g, v)
		t.SetExpirationTime(g, time.Unix(0, e).UTC())
		t.Save(g)
		t.ReleaseTreasureGuard(g)
	}
	v1, e1 := h.Int64("value1"), h.Int64("expiry1")
	set("a", v1, e1)
	set("b", 7, 7)
	if h.Choose("flushBetween", 2) == 1 {
		s.WriteTreasuresToFilesystem()
	}
	h.Assert(s.DeleteTreasure("a", false) == nil, "delete")
	switch h.Choose("between", 3) {
	case 1:
		set("b", 8, 8)
	case 2:
		s.WriteTreasuresToFilesystem()
	}
	v2, e2 := h.Int64("value2"), h.Int64("expiry2")
	if h.Choose("identicalToFirstVersion", 2) == 1 {
		v2, e2 = v1, e1 // byte-identical record (the gob model keeps byte equality for identical terms)
	}
	set("a", v2, e2)
	before := c05take(s, "a")
	s.Close()
	r := vfPersist(h, dir, time.Second, nil)
	after := c05take(r, "a")
	h.Assert(before.exists && after.exists, "recreated-record-exists-after-reload")
	if after.exists {
		h.Assert(after.val == v2 && after.expiry == e2, "recreated-record-has-the-second-version")
	}
	h.Assert(c05take(r, "b").exists, "other-record-untouched")
	r.Close()
	h.Cover("end")
}

// ---------- C09 ----------

func c09set(s Swamp, key string, v int64) treasure.TreasureStatus {
	t := s.CreateTreasure(key)
	g := t.StartTreasureGuard(true)
	defer t.ReleaseTreasureGuard(g)
	t.SetContentInt64(g, v)
	return t.Save(g)
}

// VerifC09Linear: two clients act concurrently on ONE key (fresh or existing) of an in-memory,
// interval-persistent or immediate-write swamp: client A increments by dA, client B increments
// by dB or sets vB (all symbolic). For every interleaving within the preemption bound the
// responses and the final value equal those of one of the two serial orders - no acknowledged
// increment is lost - and nothing panics or blocks.
func VerifC09Linear(h *verifrt.H) {
	h.BackgroundLowPriority(true)
	var s Swamp
	mode := h.Param("onlyMode", -1)
	if mode < 0 {
		mode = h.Choose("swampMode", h.Param("modes", 3))
	}
	switch mode {
	case 0:
		s = vfMem(h, nil)
	case 1:
		s = vfPersist(h, h.TempDir()+"/sw", time.Second, nil)
	default:
		s = vfPersist(h, h.TempDir()+"/sw", 0, nil)
	}
	v0 := int64(0)
	if h.Param("keyExists", -1) == 1 || h.Param("keyExists", -1) < 0 && h.Choose("keyExistsBefore", 2) == 1 {
		v0 = h.Int64("initial")
		c09set(s, "k", v0)
	}
	dA, dB := h.Int64("dA"), h.Int64("dB")
	h.Assume(dA != 0 && dB != 0)
	bSets := h.Choose("clientBSets", 2) == 1
	var respA, respB int64
	var okA, okB bool
	h.Go("clientA", func() {
		s.BeginVigil()
		defer s.CeaseVigil()
		v, inc, _, err := s.IncrementInt64("k", dA, nil, nil, nil)
		respA, okA = v, err == nil && inc
	})
	h.Go("clientB", func() {
		s.BeginVigil()
		defer s.CeaseVigil()
		if bSets {
			c09set(s, "k", dB)
			okB = true
			return
		}
		v, inc, _, err := s.IncrementInt64("k", dB, nil, nil, nil)
		respB, okB = v, err == nil && inc
	})
	h.AtQuiescence(func() {
		h.Assert(okA && okB, "both-requests-acknowledged")
		t, err := s.GetTreasure("k")
		h.Assert(err == nil, "key-present-at-the-end")
		if err != nil {
			return
		}
		final, ferr := t.GetContentInt64()
		h.Assert(ferr == nil, "value-is-an-integer")
		if bSets {
			aThenB := respA == v0+dA && final == dB
			bThenA := respA == dB+dA && final == dB+dA
			h.Assert(aThenB || bThenA, "outcome-equals-a-serial-order")
		} else {
			aThenB := respA == v0+dA && respB == v0+dA+dB
			bThenA := respB == v0+dB && respA == v0+dA+dB
			h.Assert(final == v0+dA+dB, "no-increment-lost")
			h.Assert(aThenB || bThenA, "outcome-equals-a-serial-order")
		}
		if mode != 0 {
			// acknowledged writes are also durable: close, summon again from the file
			s.Close()
			r := vfPersist(h, h.TempDir()+"/sw", time.Second, nil)
			rt, rerr := r.GetTreasure("k")
			h.Assert(rerr == nil, "key-present-after-reload")
			if rerr == nil {
				rv, _ := rt.GetContentInt64()
				h.Assert(rv == final, "acknowledged-value-survives-close-and-reload")
			}
		}
		h.Cover("end")
	})
}

// VerifC09LinearImmediate: the immediate-write configuration alone (higher preemption bound).
func VerifC09LinearImmediate(h *verifrt.H) { VerifC09Linear(h) }

// VerifC09LinearMem: the in-memory configuration alone (explored with a higher preemption bound).
func VerifC09LinearMem(h *verifrt.H) { VerifC09Linear(h) }

// ---------- C10 ----------

// VerifC10Race: one reader and one writer work concurrently on the same in-memory swamp; the
// engine's happens-before race detector watches every load/store of shared memory. Scenarios:
// full listing (GetAll + iteration) vs insert; cold index build vs insert; record read (value +
// metadata getters) vs update of the same record; ordered index page + iteration vs delete.
// Besides races: no panic, and the reader sees value and updated-at of ONE committed version.
func VerifC10Race(h *verifrt.H) {
	h.BackgroundLowPriority(true)
	s := vfMem(h, nil)
	c07put(s, c07rec{key: "a", created: 1, modified: 10, val: 10})
	c07put(s, c07rec{key: "b", created: 2, modified: 20, val: 20})
	scenario := h.Choose("scenario", h.Param("scenarios", 4))
	if scenario == 3 {
		s.GetTreasuresByBeacon(BeaconTypeKey, IndexOrderAsc, 0, 0, nil, nil) // index already built
	}
	h.Go("reader", func() {
		s.BeginVigil()
		defer s.CeaseVigil()
		switch scenario {
		case 0:
			n := 0
			for _, t := range s.GetAll() {
				_ = t.GetKey()
				n++
			}
			h.Assert(n == 2 || n == 3, "listing-size")
		case 1:
			got, err := s.GetTreasuresByBeacon(BeaconTypeCreationTime, IndexOrderAsc, 0, 0, nil, nil)
			h.Assert(err == nil && (len(got) == 2 || len(got) == 3), "cold-index-read")
		case 2:
			h.Known("C10-treasure-setters-unlocked", "race", true)
			t, err := s.GetTreasure("a")
			h.Assert(err == nil, "read-record")
			v, _ := t.GetContentInt64()
			m := t.GetModifiedAt()
			h.Known("C10-treasure-setters-unlocked", "read-sees", true)
			h.Assert(v == 10 && m == 10 || v == 11 && m == 11, "read-sees-one-committed-version")
		case 3:
			page, err := s.GetTreasuresByBeacon(BeaconTypeKey, IndexOrderAsc, 0, 0, nil, nil)
			h.Assert(err == nil, "page-read")
			for i, t := range page {
				for j := 0; j < i; j++ {
					h.Assert(page[j].GetKey() != t.GetKey(), "page-has-no-duplicates")
				}
			}
		}
	})
	h.Go("writer", func() {
		s.BeginVigil()
		defer s.CeaseVigil()
		switch scenario {
		case 0, 1:
			c07put(s, c07rec{key: "c", created: 3, modified: 30, val: 30})
		case 2:
			t := s.CreateTreasure("a")
			g := t.StartTreasureGuard(true)
			t.SetContentInt64(g, 11)
			t.SetModifiedAt(g, time.Unix(0, 11).UTC())
			t.Save(g)
			t.ReleaseTreasureGuard(g)
		case 3:
			_ = s.DeleteTreasure("a", false)
		}
	})
	h.AtQuiescence(func() { h.Cover("end") })
}

// ---------- C29 at swamp level: the stored name survives crash recovery ----------

// VerifC29Recovered: a persistent swamp writes its first records; the process dies at ANY point
// of the file operations so far (file created but no block on disk yet, torn first block, ...);
// after the restart the swamp is summoned from what is on disk, written again and closed. The
// fast name lookup on the resulting file must return the swamp's name, and the records written
// after the restart must be there.
func VerifC29Recovered(h *verifrt.H) {
	h.BackgroundLowPriority(true)
	dir := h.TempDir() + "/sw"
	s := vfPersist(h, dir, time.Second, nil)
	vfPut(s, "a", nil)
	if h.Choose("flushBeforeCrash", 2) == 1 {
		s.WriteTreasuresToFilesystem()
	}
	if h.Choose("secondRecord", 2) == 1 {
		vfPut(s, "b", nil)
		s.WriteTreasuresToFilesystem()
	}
	files := h.ListFiles(h.TempDir())
	if len(files) == 0 {
		h.Cover("end")
		return // nothing reached the file system yet
	}
	path := files[0]
	h.CrashImageAnywhere(path)
	r := vfPersist(h, dir, time.Second, nil)
	vfPut(r, "z", nil)
	r.Close()
	var hyd []string
	for _, f := range h.ListFiles(h.TempDir()) {
		if strings.HasSuffix(f, ".hyd") {
			hyd = append(hyd, f)
		}
	}
	// the explorer lists one swamp per .hyd file: exactly one may exist for the one swamp
	h.Assert(len(hyd) == 1, "one-storage-file")
	if len(hyd) != 1 {
		return
	}
	got, err := v2.ReadSwampName(hyd[0])
	h.Assert(err == nil && got == "s/r/w", "name-lookup-after-recovery")
	r2 := vfPersist(h, dir, time.Second, nil)
	h.Assert(r2.TreasureExists("z"), "write-after-recovery-present")
	r2.Close()
	h.Cover("end")
}

// ---------- C11 / C12 (swamp level) ----------

const c11Past, c11Future = int64(1000), int64(9_000_000_000_000_000_000)

func c11put(s Swamp, key string, body byte, expiry int64) {
	t := s.CreateTreasure(key)
	g := t.StartTreasureGuard(true)
	t.SetContentByteArray(g, []byte{0xC7, 0x00, 0x81, 0xa1, 's', 0xa1, body}) // {"s": "<body>"}
	if expiry != 0 {
		t.SetExpirationTime(g, time.Unix(0, expiry).UTC())
	}
	t.Save(g)
	t.ReleaseTreasureGuard(g)
}

// VerifC11Claims: claimers of expired records run concurrently with each other or with a
// writer on an in-memory swamp holding records a and b (each expired or not, by choice):
//
//	0: two shift-expired claimers with symbolic HowMany: disjoint results, at most HowMany each,
//	   only expired records, every expired record claimed at most once;
//	1: a shift-expired claimer vs a writer renewing a's TTL into the future: a claimed a carries
//	   the expired TTL it was claimed with, never the renewed one;
//	2: an expired-patch claimer vs a delete of a: once the delete has succeeded a is never
//	   handed out again and is in no index;
//	3: a shift-matching claimer (filter on the body, walking the key, creation-time or
//	   expiry index) vs a writer changing a's body so that it no longer matches (no re-index):
//	   every claimed clone matches the filter - the record is judged in the state it is claimed in.
func VerifC11Claims(h *verifrt.H) {
	h.BackgroundLowPriority(true)
	s := vfMem(h, nil)
	expA, expB := c11Past, c11Past+1
	if h.Choose("bExpired", 2) == 0 {
		expB = c11Future
	}
	c11put(s, "a", 'p', expA)
	c11put(s, "b", 'p', expB)
	if h.Choose("indexBuiltBefore", 2) == 1 {
		s.GetTreasuresByBeacon(BeaconTypeExpirationTime, IndexOrderAsc, 0, 0, nil, nil)
	}
	scenario := h.Param("onlyScenario", -1)
	if scenario < 0 {
		scenario = h.Choose("scenario", h.Param("scenarios", 3))
	}
	var got1, got2, gotMatching []treasure.Treasure
	var patched []PatchExpiredEntry
	deleted := false
	switch scenario {
	case 0:
		n1, n2 := h.IntRange("howMany1", 1, 2), h.IntRange("howMany2", 1, 2)
		h.Go("claimer1", func() {
			s.BeginVigil()
			defer s.CeaseVigil()
			got1, _ = s.CloneAndDeleteExpiredTreasures(int32(n1))
			h.Assert(len(got1) <= n1, "claim-at-most-how-many")
		})
		h.Go("claimer2", func() {
			s.BeginVigil()
			defer s.CeaseVigil()
			got2, _ = s.CloneAndDeleteExpiredTreasures(int32(n2))
			h.Assert(len(got2) <= n2, "claim-at-most-how-many")
		})
	case 1:
		h.Go("claimer1", func() {
			s.BeginVigil()
			defer s.CeaseVigil()
			got1, _ = s.CloneAndDeleteExpiredTreasures(1)
		})
		h.Go("renewer", func() {
			s.BeginVigil()
			defer s.CeaseVigil()
			t, err := s.GetTreasure("a")
			if err != nil {
				return
			}
			g := t.StartTreasureGuard(true)
			t.SetExpirationTime(g, time.Unix(0, c11Future).UTC())
			t.Save(g)
			t.ReleaseTreasureGuard(g)
		})
	case 3:
		// a shift-matching claimer (filter: status "p", walked on the key index) vs a writer
		// that moves a to status "d" - an update that does not re-index the record
		isP := func(t treasure.Treasure) bool {
			raw, err := t.GetContentByteArray()
			return err == nil && len(raw) == 7 && raw[6] == 'p'
		}
		idx := []BeaconType{BeaconTypeKey, BeaconTypeCreationTime, BeaconTypeExpirationTime}[h.Choose("walkedIndex", 3)]
		h.Go("claimer1", func() {
			s.BeginVigil()
			defer s.CeaseVigil()
			got, _, _ := s.CloneAndDeleteMatchingTreasures(idx, IndexOrderAsc, 2, isP, nil, 0)
			for _, t := range got {
				h.Assert(isP(t), "claimed-record-matches-the-filter-at-claim-time")
			}
			gotMatching = got
		})
		h.Go("writer", func() {
			s.BeginVigil()
			defer s.CeaseVigil()
			t, err := s.GetTreasure("a")
			if err != nil {
				return
			}
			g := t.StartTreasureGuard(true)
			t.SetContentByteArray(g, []byte{0xC7, 0x00, 0x81, 0xa1, 's', 0xa1, 'd'})
			t.Save(g)
			t.ReleaseTreasureGuard(g)
		})
	case 2:
		h.Go("patcher", func() {
			s.BeginVigil()
			defer s.CeaseVigil()
			patched, _, _ = s.PatchExpired(2, nil, nil, &PatchFieldsMeta{SetUpdatedAt: true}, nil, nil, 0)
		})
		h.Go("deleter", func() {
			s.BeginVigil()
			defer s.CeaseVigil()
			deleted = s.DeleteTreasure("a", false) == nil
		})
	}
	h.AtQuiescence(func() {
		seen := map[string]int{}
		for _, t := range append(append([]treasure.Treasure{}, got1...), got2...) {
			seen[t.GetKey()]++
			e := t.GetExpirationTime()
			h.Assert(e != 0 && e < c11Future, "claimed-record-was-expired-when-claimed")
		}
		for _, c := range seen {
			h.Assert(c == 1, "record-claimed-at-most-once")
		}
		if scenario == 0 {
			h.Assert(seen["b"] == 0 || expB != c11Future, "unexpired-record-not-claimed")
		}
		if scenario == 2 && deleted {
			h.Assert(!s.TreasureExists("a"), "deleted-record-not-resurrected")
			if !s.IsClosing() {
				again, _ := s.CloneAndDeleteExpiredTreasures(5)
				for _, t := range again {
					h.Assert(t.GetKey() != "a", "deleted-record-not-handed-out-later")
				}
			}
		}
		if scenario == 3 {
			// (whether a is still in the swamp afterwards is not asserted: a writer that saves
			// after the claim legitimately re-creates the record)
			h.Assert(len(gotMatching) <= 2, "claim-at-most-how-many")
		}
		_ = patched
		h.Cover("end")
	})
}

// VerifC12Cap: two cap-bearing expired-patch batches (cap: at most 1 record with s == "d") run
// concurrently on a swamp with two expired records that do not match; each batch moves the
// records it claims into the filter. At quiescence at most cap records match.
func VerifC12Cap(h *verifrt.H) {
	h.BackgroundLowPriority(true)
	s := vfMem(h, nil)
	c11put(s, "a", 'p', c11Past)
	c11put(s, "b", 'p', c11Past+1)
	matches := func(t treasure.Treasure) bool {
		raw, err := t.GetContentByteArray()
		return err == nil && len(raw) == 7 && raw[6] == 'd'
	}
	ops := []msgpackpatch.Op{{Kind: msgpackpatch.OpSet, Path: "s", Value: []byte{0xa1, 'd'}}}
	for i := 0; i < 2; i++ {
		h.Go("batch", func() {
			s.BeginVigil()
			defer s.CeaseVigil()
			_, _, err := s.PatchExpired(2, ops, nil, &PatchFieldsMeta{SetExpiredAt: time.Unix(0, c11Future).UTC()}, nil, matches, 1)
			h.Assert(err == nil, "cap-batch-ok")
		})
	}
	h.AtQuiescence(func() {
		h.Assert(int(s.CountMatchingTreasures(matches)) <= 1, "matches-never-exceed-cap")
		h.Cover("end")
	})
}

// VerifC09Patch: two clients send a creating structural patch (PatchFields, CreateIfNotExist,
// INC n by 1) to ONE fresh key of an in-memory swamp at the same time. For every interleaving
// within the preemption bound both are acknowledged, exactly one reports CREATED and the other
// PATCHED, and the stored counter is 2: the second writer patches what the first one stored,
// it does not start again from the seed body.
func VerifC09Patch(h *verifrt.H) {
	h.BackgroundLowPriority(true)
	s := vfMem(h, nil)
	s.BeginVigil()
	created, patched := 0, 0
	var last []byte
	for _, n := range []string{"A", "B"} {
		h.Go(n, func() {
			r, err := s.PatchFields("k", []msgpackpatch.Op{{Kind: msgpackpatch.OpInc, Path: "n", Value: []byte{0x01}}}, nil, PatchFieldsOptions{CreateIfNotExist: true})
			h.Assert(err == nil, "creating-patch-acknowledged")
			switch r.Status {
			case PatchStatusCreated:
				created++
			case PatchStatusPatched:
				patched++
			}
			last = r.NewMsgpack
		})
	}
	h.AtQuiescence(func() {
		_ = last
		h.Assert(created == 1 && patched == 1, "one-created-one-patched")
		t, err := s.GetTreasure("k")
		h.Assert(err == nil && t != nil, "record-exists")
		if err == nil && t != nil {
			b, berr := t.GetContentByteArray()
			h.Assert(berr == nil, "record-has-body")
			// stored form: 2-byte magic prefix + {n: 2}
			ok := false
			for i := 0; i+2 < len(b); i++ {
				if b[i] == 0xa1 && b[i+1] == 'n' {
					switch c := b[i+2]; {
					case c == 0x02:
						ok = true
					case (c == 0xcf || c == 0xd3) && i+10 < len(b)+0 && i+10 <= len(b)-1+0:
						ok = b[i+10] == 2
						for j := i + 3; j < i+10; j++ {
							ok = ok && b[j] == 0
						}
					}
				}
			}
			h.Observe("body", b)
			h.Assert(ok, "no-acknowledged-patch-lost")
		}
		h.Cover("end")
	})
}
