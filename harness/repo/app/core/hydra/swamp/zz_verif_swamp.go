//go:build verif

package swamp

import (
	"time"

	"github.com/hydraide/hydraide/app/core/hydra/swamp/metadata"
	"github.com/hydraide/hydraide/app/name"
	"github.com/hydraide/hydraide/app/verifrt"
)

// vfMem creates a real in-memory swamp (no chronicler); events are collected by the callback.
func vfMem(h *verifrt.H, events *[]*Event) Swamp {
	n := name.New().Sanctuary("s").Realm("r").Swamp("w")
	return New(n, time.Hour, nil, func(e *Event) {
		if events != nil {
			*events = append(*events, e)
		}
	}, func(*Info) {}, func(name.Name) {}, metadata.NewNoop())
}

func VerifProbeSwamp(h *verifrt.H) {
	h.BackgroundLowPriority(true)
	s := vfMem(h, nil)
	t := s.CreateTreasure("a")
	g := t.StartTreasureGuard(true)
	t.SetContentInt64(g, h.Int64("v"))
	st := t.Save(g)
	t.ReleaseTreasureGuard(g)
	h.Observe("status", int(st))
	got, err := s.GetTreasure("a")
	h.Assert(err == nil, "get")
	v, _ := got.GetContentInt64()
	h.Observe("v", v)
	h.Assert(s.CountTreasures() == 1, "count")
	h.Cover("end")
}
