//go:build verif

package swamp

import (
	"time"

	"github.com/hydraide/hydraide/app/core/hydra/swamp/metadata"
	"github.com/hydraide/hydraide/app/name"
	"github.com/hydraide/hydraide/app/verifrt"
)

// vfMem creates a real in-memory swamp (no chronicler); events are collected by the callback.
func vfMem(h *verifrt.H, events *[]*Event) Swamp {
	n := name.New().Sanctuary("s").Realm("r").Swamp("w")
	return New(n, time.Hour, nil, func(e *Event) {
		if events != nil {
			*events = append(*events, e)
		}
	}, func(*Info) {}, func(name.Name) {}, metadata.NewNoop())
}

func VerifProbeSwamp(h *verifrt.H) {
	h.BackgroundLowPriority(true)
	s := vfMem(h, nil)
	t := s.CreateTreasure("a")
	g := t.StartTreasureGuard(true)
	t.SetContentInt64(g, h.Int64("v"))
	st := t.Save(g)
	t.ReleaseTreasureGuard(g)
	h.Observe("status", int(st))
	got, err := s.GetTreasure("a")
	h.Assert(err == nil, "get")
	v, _ := got.GetContentInt64()
	h.Observe("v", v)
	h.Assert(s.CountTreasures() == 1, "count")
	h.Cover("end")
}

var vfEmptyBody = []byte{0xC7, 0x00, 0x80} // msgpack magic prefix + empty map

func vfPut(s Swamp, key string, exp *time.Time) {
	t := s.CreateTreasure(key)
	g := t.StartTreasureGuard(true)
	t.SetContentByteArray(g, vfEmptyBody)
	if exp != nil {
		t.SetExpirationTime(g, *exp)
	}
	t.Save(g)
	t.ReleaseTreasureGuard(g)
}

// VerifC30Expiry: one record whose expiry e (UnixNano; symbolic: 0, negative, past, future) is
// set through Set / patch-meta set / patch-meta slide / patch-meta clear, with the expiry index
// built before or after the write (hot vs cold path). Every expiry-aware path must agree with
// "e != 0 && e < now": stored value, IsExpired, membership in the expiry-ordered index,
// expired-shift and expired-patch claims.
func VerifC30Expiry(h *verifrt.H) {
	h.BackgroundLowPriority(true)
	s := vfMem(h, nil)
	e := h.Int64("expiry")
	et := time.Unix(0, e).UTC()
	warm := h.Choose("indexBuiltBeforeWrite", 2) == 1
	if warm {
		s.GetTreasuresByBeacon(BeaconTypeExpirationTime, IndexOrderAsc, 0, 10, nil, nil)
	}
	want := e
	switch h.Choose("setPath", 4) {
	case 0:
		vfPut(s, "k", &et)
	case 1:
		vfPut(s, "k", nil)
		r, err := s.PatchFields("k", nil, nil, PatchFieldsOptions{Meta: &PatchFieldsMeta{SetExpiredAt: et}})
		h.Assert(err == nil && r.Status == PatchStatusPatched, "patch-meta-set-ok")
	case 2:
		e0 := time.Unix(0, h.Int64("oldExpiry")).UTC()
		vfPut(s, "k", &e0)
		r, err := s.PatchFields("k", nil, nil, PatchFieldsOptions{Meta: &PatchFieldsMeta{SetExpiredAt: et}})
		h.Assert(err == nil && r.Status == PatchStatusPatched, "patch-meta-slide-ok")
	case 3:
		vfPut(s, "k", &et)
		r, err := s.PatchFields("k", nil, nil, PatchFieldsOptions{Meta: &PatchFieldsMeta{ClearExpiredAt: true}})
		h.Assert(err == nil && r.Status == PatchStatusPatched, "patch-meta-clear-ok")
		want = 0
	}
	n0 := time.Now().UTC().UnixNano()
	tr, err := s.GetTreasure("k")
	h.Assert(err == nil, "record-present")
	if err != nil {
		return
	}
	h.Assert(tr.GetExpirationTime() == want, "expiry-stored-as-given")
	expired := tr.IsExpired()
	list, lerr := s.GetTreasuresByBeacon(BeaconTypeExpirationTime, IndexOrderAsc, 0, 10, nil, nil)
	h.Assert(lerr == nil, "expiry-index-read-ok")
	h.Assert((len(list) == 1) == (want != 0), "expiry-index-holds-exactly-records-with-expiry")
	claimed := false
	if h.Choose("claimPath", 2) == 0 {
		got, cerr := s.CloneAndDeleteExpiredTreasures(1)
		h.Assert(cerr == nil, "shift-expired-ok")
		claimed = len(got) == 1
	} else {
		got, _, cerr := s.PatchExpired(1, nil, nil, &PatchFieldsMeta{SetUpdatedAt: true}, nil, nil, 0)
		h.Assert(cerr == nil, "patch-expired-ok")
		claimed = len(got) == 1
	}
	n1 := time.Now().UTC().UnixNano()
	if want != 0 && want < n0 {
		h.Assert(expired, "past-expiry-is-expired")
		h.Assert(claimed, "past-expiry-is-claimable")
	}
	if want == 0 || want >= n1 {
		h.Assert(!expired, "no-or-future-expiry-is-not-expired")
		h.Assert(!claimed, "no-or-future-expiry-is-not-claimable")
	}
	h.Cover("end")
}
