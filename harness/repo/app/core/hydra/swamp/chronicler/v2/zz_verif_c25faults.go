//go:build verif

package v2

import (
	"github.com/hydraide/hydraide/app/verifrt"
)

var vfFaultKinds = []string{"write", "sync"}

// VerifC25Faults: an I/O error (EIO: nothing written, error returned) hits the n-th next
// write or sync of the writer, for every n that falls inside the following steps, optionally
// a second one later (double fault); the fault clears and more entries are written. Whatever
// was acknowledged (WriteEntry and Sync both returned nil) - before, between or after the
// faults - is readable afterwards, the durable first entry is intact, the file loads, and a new
// session can append. This reaches the file operations a full disk cannot fail (the in-place
// rewrite of the file header after every block and in Sync/Close).
func VerifC25Faults(h *verifrt.H) {
	path := h.TempDir() + "/f.hyd"
	bs := h.Param("blockSize", 16)
	w, err := NewFileWriterWithName(path, bs, "n")
	h.Assert(err == nil, "open")
	e0 := Entry{Operation: OpInsert, Key: "a", Data: h.Bytes("d0", 1)}
	h.Assert(w.WriteEntry(e0) == nil && w.Sync() == nil, "first-entry-durable")
	kind := vfFaultKinds[h.Choose("faultKind", len(vfFaultKinds))]
	maxNth := h.Param("maxNth", 8)
	h.FailNext(kind, h.Len("faultAt", 1, maxNth))
	keys := []string{"b", "c", "d", "e"}
	var es []Entry
	var acked []bool
	step := func(i int) {
		e := Entry{Operation: OpInsert, Key: keys[i], Data: h.Bytes("d", 1)}
		er := w.WriteEntry(e)
		if er == nil {
			er = w.Sync()
		}
		es = append(es, e)
		acked = append(acked, er == nil)
	}
	step(0)
	step(1)
	// optional second fault of either kind
	if k2 := h.Choose("secondFault", 3); k2 > 0 {
		h.FailNext(kind, 0)
		h.FailNext(vfFaultKinds[k2-1], h.Len("faultAt2", 1, 4))
	}
	step(2)
	h.FailNext("write", 0)
	h.FailNext("sync", 0)
	step(3)
	cerr := w.Close()
	_ = cerr
	idx, _, lerr := vfLoad(h, path)
	h.Assert(lerr == nil, "ioerror-load-ok")
	if lerr != nil {
		return
	}
	v, ok := idx["a"]
	h.Assert(ok && vfBytesEq(v, e0.Data), "ioerror-durable-data-still-readable")
	for i := range es {
		if acked[i] {
			v, ok := idx[es[i].Key]
			h.Assert(ok && vfBytesEq(v, es[i].Data), "ioerror-acknowledged-entry-present")
		}
	}
	h.Assert(acked[3], "ioerror-write-after-fault-cleared-succeeds")
	w2, oerr := NewFileWriter(path, bs)
	h.Assert(oerr == nil, "ioerror-reopen-ok")
	if oerr == nil {
		e5 := Entry{Operation: OpInsert, Key: "f", Data: []byte{5}}
		h.Assert(w2.WriteEntry(e5) == nil && w2.Close() == nil, "ioerror-append-after-reopen")
		idx2, _, lerr2 := vfLoad(h, path)
		h.Assert(lerr2 == nil && len(idx2) == len(idx)+1, "ioerror-reload-after-reopen")
	}
	h.ClearKnown()
	h.Cover("end")
}

// VerifC25Compact: a compaction (Compact / CompactFromIndex) during which one file operation
// fails - the n-th write into the temp file (EIO), the temp file hitting a full disk after any
// number of bytes (short write + ENOSPC), the sync, or the rename - leaves the live file
// loading to exactly the records it held; after the fault cleared a further compaction
// succeeds with the same records, and an append afterwards is stored next to them.
func VerifC25Compact(h *verifrt.H) {
	h.MapOrderNondet(false)
	path := h.TempDir() + "/k.hyd"
	temp := path + ".compact"
	w, err := NewFileWriterWithName(path, 32, "nm")
	h.Assert(err == nil, "open")
	h.Assert(w.WriteEntry(Entry{Operation: OpInsert, Key: "a", Data: h.Bytes("d0", 1)}) == nil, "w0")
	h.Assert(w.WriteEntry(Entry{Operation: OpInsert, Key: "b", Data: h.Bytes("d1", 1)}) == nil, "w1")
	h.Assert(w.Sync() == nil, "s")
	h.Assert(w.WriteEntry(Entry{Operation: OpUpdate, Key: "a", Data: h.Bytes("d2", 1)}) == nil, "w2")
	h.Assert(w.WriteEntry(Entry{Operation: OpInsert, Key: "c", Data: h.Bytes("d3", 1)}) == nil, "w3")
	h.Assert(w.WriteEntry(Entry{Operation: OpDelete, Key: "c"}) == nil, "w4")
	h.Assert(w.Close() == nil, "close")
	before, _, lerr := vfLoad(h, path)
	h.Assert(lerr == nil && len(before) == 2, "load-before")
	switch h.Choose("fault", 5) {
	case 0:
		h.FailNext("write", h.Len("faultAt", 1, h.Param("maxNth", 6)))
	case 1:
		h.DiskLimit(temp, h.Len("tempRoom", 0, h.Param("maxRoom", 120)))
	case 2:
		h.FailNext("sync", 1)
	case 3:
		h.FailNext("rename", 1)
	case 4: // no fault
	}
	var cerr error
	if h.Choose("entryPoint", 2) == 0 {
		_, cerr = NewCompactor(path, 32, 0).ForceCompact()
	} else {
		_, cerr = CompactFromIndex(path, 32, "nm", before, 5)
	}
	_ = cerr
	h.DiskClear(temp)
	h.FailNext("write", 0)
	h.FailNext("sync", 0)
	h.FailNext("rename", 0)
	after, name, lerr := vfLoad(h, path)
	h.Assert(lerr == nil, "faulty-compaction-file-still-loads")
	if lerr != nil {
		return
	}
	h.Assert(vfSameIndex(before, after) && name == "nm", "faulty-compaction-preserves-live-records")
	// what the chronicler does next time: cleanup, compact again
	_ = CleanupCompactionTemp(path)
	res, cerr2 := NewCompactor(path, 32, 0).ForceCompact()
	h.Assert(cerr2 == nil && res != nil, "compaction-after-fault-cleared-succeeds")
	after2, name2, lerr2 := vfLoad(h, path)
	h.Assert(lerr2 == nil && vfSameIndex(before, after2) && name2 == "nm", "compaction-after-fault-preserves-live-records")
	w2, oerr := NewFileWriter(path, 32)
	h.Assert(oerr == nil, "append-after-faulty-compaction-open")
	if oerr == nil {
		h.Assert(w2.WriteEntry(Entry{Operation: OpInsert, Key: "z", Data: []byte{7}}) == nil && w2.Close() == nil, "append-after-faulty-compaction")
		after3, _, lerr3 := vfLoad(h, path)
		h.Assert(lerr3 == nil && len(after3) == len(before)+1, "append-after-faulty-compaction-present")
	}
	h.ClearKnown()
	h.Cover("end")
}
