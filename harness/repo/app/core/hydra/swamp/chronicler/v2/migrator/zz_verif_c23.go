//go:build verif

package migrator

import (
	"bytes"
	"encoding/binary"
	"encoding/gob"

	"github.com/golang/snappy"
	v2 "github.com/hydraide/hydraide/app/core/hydra/swamp/chronicler/v2"
	"github.com/hydraide/hydraide/app/core/hydra/swamp/treasure"
	"github.com/hydraide/hydraide/app/verifrt"
)

type c23rec struct {
	key  string
	seg  []byte // the legacy segment (gob bytes of the record)
	ver  int64  // CreatedAt stored in the record, distinguishes versions
	file int
}

func c23segment(h *verifrt.H, key string, ver int64) []byte {
	var buf bytes.Buffer
	m := treasure.Model{Key: key, CreatedAt: ver}
	h.Assert(gob.NewEncoder(&buf).Encode(&m) == nil, "gob-encode")
	return append([]byte(nil), buf.Bytes()...)
}

func c23bytesEq(a, b []byte) bool {
	if len(a) != len(b) {
		return false
	}
	for i := range a {
		if a[i] != b[i] {
			return false
		}
	}
	return true
}

// VerifC23Migrate drives the real migrateSwamp over a legacy folder built in the legacy chunk
// format (snappy( [len32le][gob record]... ) per chunk file, gob meta file), for every choice
// of chunk count, records per chunk, key assignment (so that keys repeat inside a chunk and
// across chunks), an optional undecodable chunk, and an optional write fault at every byte of
// the new file. Oracle: on success the new file loads to exactly the records the legacy loader
// keeps (per key: the last version in directory order for keys in one chunk; one complete
// legacy version for keys repeated across chunks), byte for byte, with the swamp name; on any
// failure every legacy file is still there with its bytes.
func VerifC23Migrate(h *verifrt.H) {
	root := h.TempDir()
	folder := root + "/0a"
	nChunks := h.Len("chunks", 1, h.Param("maxChunks", 3))
	maxPer := h.Param("maxPerChunk", 2)
	nKeys := h.Param("keys", 3)
	keyNames := []string{"ka", "kb", "kc", "kd"}
	chunkNames := []string{"0a-1", "0b-2", "0c-3", "0d-4"}
	withName := h.Bool("hasMeta")
	corrupt := -1
	if h.Param("corrupt", 1) == 1 && h.Bool("oneChunkCorrupt") {
		corrupt = h.Choose("corruptChunk", nChunks)
	}

	if withName {
		var mb bytes.Buffer
		type MetaModel struct{ SwampName string }
		h.Assert(gob.NewEncoder(&mb).Encode(&MetaModel{SwampName: "s/w/n"}) == nil, "meta-encode")
		h.PutFile(folder+"/meta", append([]byte(nil), mb.Bytes()...))
	}
	var recs []c23rec
	legacy := map[string][]byte{}
	ver := int64(0)
	for c := 0; c < nChunks; c++ {
		per := h.Len("records", 0, maxPer)
		var body []byte
		for i := 0; i < per; i++ {
			ver++
			k := keyNames[h.Choose("key", nKeys)]
			seg := c23segment(h, k, ver)
			var l [4]byte
			binary.LittleEndian.PutUint32(l[:], uint32(len(seg)))
			body = append(body, l[:]...)
			body = append(body, seg...)
			recs = append(recs, c23rec{key: k, seg: seg, ver: ver, file: c})
		}
		data := snappy.Encode(nil, body)
		if c == corrupt {
			data = []byte{0xff, 0xff, 0xff, 0xff, 0xff, 0xff, 0xff}
		}
		h.PutFile(folder+"/"+chunkNames[c], data)
		legacy[chunkNames[c]] = data
	}

	m, err := New(Config{DataPath: root, Verify: true, DeleteOld: true, Parallel: 1})
	h.Assert(err == nil, "new")
	hyd := folder + ".hyd"
	room := -1
	if h.Param("faults", 1) == 1 && h.Bool("diskFault") {
		room = h.Len("roomBeforeFull", 0, h.Param("maxRoom", 24)) * h.Param("roomStep", 8)
		h.DiskLimit(hyd, room)
	}
	if h.Param("rerun", 1) == 1 && corrupt < 0 && room < 0 && len(recs) > 0 && h.Bool("staleHydFromEarlierRun") {
		// a .hyd left by an earlier migration run (without DeleteOld), after which the legacy engine
		// kept writing: same swamp name, every legacy key present, but with OLDER versions
		name := ""
		if withName {
			name = "s/w/n"
		}
		sw, serr := v2.NewFileWriterWithName(hyd, 64, name)
		h.Assert(serr == nil, "stale-open")
		seen := map[string]bool{}
		for _, r := range recs {
			if !seen[r.key] {
				seen[r.key] = true
				h.Assert(sw.WriteEntry(v2.Entry{Operation: v2.OpInsert, Key: r.key, Data: c23segment(h, r.key, 1000+r.ver)}) == nil, "stale-write")
			}
		}
		h.Assert(sw.Close() == nil, "stale-close")
	}
	m.migrateSwamp(folder)
	if room >= 0 {
		h.DiskClear(hyd)
	}
	failed := len(m.result.FailedSwamps) > 0
	if corrupt >= 0 && !failed {
		// the legacy loader skips a chunk file it cannot decode; a migrator that does the
		// same is as good as one that gives up: then the undecodable chunk's records are
		// simply not part of what the legacy engine would load
		kept := recs[:0:0]
		for _, r := range recs {
			if r.file != corrupt {
				kept = append(kept, r)
			}
		}
		recs = kept
	}

	if failed {
		// legacy data intact
		for name, data := range legacy {
			h.Assert(h.FileExists(folder+"/"+name), "failed-migration-keeps-legacy-file")
			h.Assert(c23bytesEq(h.FileBytes(folder+"/"+name), data), "failed-migration-keeps-legacy-bytes")
		}
		if withName {
			h.Assert(h.FileExists(folder+"/meta"), "failed-migration-keeps-meta")
		}
		h.Cover("failed")
		return
	}

	if room >= 0 {
		// the limit was not reached: same run as the fault-free path, which is checked there
		// (the model's gob token is shorter than the real encoding, so "limit not reached"
		// is not a statement about the same byte count natively)
		h.Cover("fault-not-reached")
		return
	}
	if len(recs) == 0 && !h.FileExists(hyd) {
		// nothing to migrate and no file written: loads to the same (empty) set
		h.Cover("empty")
		return
	}
	// success: the new file loads to exactly the legacy records (whether the legacy files are
	// removed on success is the --delete-old feature, not part of the property)
	rd, err := v2.NewFileReader(hyd)
	h.Assert(err == nil, "open-migrated")
	if err != nil {
		return
	}
	idx, name, lerr := rd.LoadIndex()
	rd.Close()
	h.Assert(lerr == nil, "load-migrated")
	if withName {
		h.Assert(name == "s/w/n", "swamp-name-preserved")
	}
	// expected key set
	want := map[string]bool{}
	for _, r := range recs {
		want[r.key] = true
	}
	h.Assert(len(idx) == len(want), "migrated-key-set-equals-legacy")
	for k := range want {
		got, ok := idx[k]
		h.Assert(ok, "migrated-key-present")
		if !ok {
			continue
		}
		// candidates: per chunk file the last version of k in that file (the legacy loader
		// keeps the last record of a key within a file; across files its order is the
		// directory/map order, so any file's last version is a legal outcome; the migrator
		// documents "last in directory order").
		matched := false
		for f := 0; f < nChunks; f++ {
			var lastSeg []byte
			for _, r := range recs {
				if r.key == k && r.file == f {
					lastSeg = r.seg
				}
			}
			if lastSeg != nil && c23bytesEq(got, lastSeg) {
				matched = true
			}
		}
		h.Assert(matched, "migrated-record-is-a-legacy-loadable-version-byte-for-byte")
		// and it decodes to the same record
		var mm treasure.Model
		derr := gob.NewDecoder(bytes.NewReader(got)).Decode(&mm)
		h.Assert(derr == nil && mm.Key == k, "migrated-record-decodes-to-its-key")
	}
	h.Cover("migrated")
}

// VerifC23Framing: the migrator's segment parser and the legacy writer's framing agree: for
// every list of segments (lengths and bytes symbolic, zero-length excluded as the legacy
// writer never frames an empty record) parse(frame(segs)) == segs, and every truncation of a
// framed stream is either an error or a prefix of the segments - never foreign bytes.
func VerifC23Framing(h *verifrt.H) {
	n := h.Len("segments", 0, h.Param("maxSegs", 3))
	var segs [][]byte
	var body []byte
	for i := 0; i < n; i++ {
		s := h.Bytes("seg", h.Len("segLen", 1, h.Param("maxSeg", 3)))
		var l [4]byte
		binary.LittleEndian.PutUint32(l[:], uint32(len(s)))
		body = append(body, l[:]...)
		body = append(body, s...)
		segs = append(segs, s)
	}
	m := &Migrator{}
	got, err := m.parseV1Segments(body)
	h.Assert(err == nil && len(got) == n, "framing-roundtrip-count")
	for i := range got {
		h.Assert(c23bytesEq(got[i], segs[i]), "framing-roundtrip-bytes")
	}
	// truncation
	cut := h.Len("cut", 0, len(body))
	got2, err2 := m.parseV1Segments(body[:cut])
	if err2 == nil {
		h.Assert(len(got2) <= n, "truncated-stream-yields-a-prefix")
		for i := range got2 {
			h.Assert(i < n && c23bytesEq(got2[i], segs[i]), "truncated-stream-yields-a-prefix")
		}
	}
	h.Cover("end")
}
