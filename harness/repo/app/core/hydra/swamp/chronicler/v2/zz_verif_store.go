//go:build verif

package v2

import (
	"strings"

	"github.com/hydraide/hydraide/app/verifrt"
)

// ---------- shared helpers (reference model = last-writer-wins fold) ----------

type vfRef struct {
	keys []string
	vals [][]byte
}

func (r *vfRef) find(k string) int {
	for i, x := range r.keys {
		if x == k {
			return i
		}
	}
	return -1
}

func (r *vfRef) apply(e Entry) {
	i := r.find(e.Key)
	switch e.Operation {
	case OpInsert, OpUpdate:
		d := append([]byte{}, e.Data...)
		if i >= 0 {
			r.vals[i] = d
		} else {
			r.keys = append(r.keys, e.Key)
			r.vals = append(r.vals, d)
		}
	case OpDelete:
		if i >= 0 {
			r.keys = append(r.keys[:i:i], r.keys[i+1:]...)
			r.vals = append(r.vals[:i:i], r.vals[i+1:]...)
		}
	}
}

func (r *vfRef) clone() *vfRef {
	c := &vfRef{}
	c.keys = append(c.keys, r.keys...)
	for _, v := range r.vals {
		c.vals = append(c.vals, append([]byte{}, v...))
	}
	return c
}

func vfBytesEq(a, b []byte) bool {
	if len(a) != len(b) {
		return false
	}
	for i := range a {
		if a[i] != b[i] {
			return false
		}
	}
	return true
}

// equals: idx holds exactly the reference's keys with the reference's values.
func (r *vfRef) equals(idx map[string][]byte) bool {
	if len(idx) != len(r.keys) {
		return false
	}
	for i, k := range r.keys {
		v, ok := idx[k]
		if !ok || !vfBytesEq(v, r.vals[i]) {
			return false
		}
	}
	return true
}

var vfOpcodes = []uint8{OpInsert, OpDelete, OpUpdate, OpMetadata}

func vfEntry(h *verifrt.H, maxKey, maxData int) Entry {
	return Entry{
		Operation: vfOpcodes[h.Choose("opcode", h.Param("opcodes", 2))],
		Key:       h.String("key", h.Len("kLen", 1, maxKey)),
		Data:      h.Bytes("data", h.Len("dLen", 0, maxData)),
	}
}

func vfLoad(h *verifrt.H, path string) (map[string][]byte, string, error) {
	r, err := NewFileReader(path)
	if err != nil {
		return nil, "", err
	}
	defer r.Close()
	return r.LoadIndex()
}

// ---------- C01 ----------

// VerifC01Codec: Deserialize(Serialize(e)) == (Size(e), e) for every entry with a non-empty key
// up to the bound, ErrEmptyKey for the empty key, and every strict prefix of an encoding is rejected.
func VerifC01Codec(h *verifrt.H) {
	e := Entry{Operation: h.Uint8("op"), Key: h.String("key", h.Len("kLen", 0, h.Param("maxKey", 3))), Data: h.Bytes("data", h.Len("dLen", 0, h.Param("maxData", 3)))}
	buf := e.Serialize()
	var d Entry
	n, err := d.Deserialize(buf)
	if len(e.Key) == 0 {
		h.Assert(err == ErrEmptyKey, "empty-key-rejected-by-decoder")
	} else {
		h.Assert(err == nil && n == len(buf), "roundtrip-consumes-all")
		h.Assert(d.Operation == e.Operation && d.Key == e.Key && vfBytesEq(d.Data, e.Data), "roundtrip-identity")
		for cut := 0; cut < len(buf); cut++ {
			var t Entry
			_, err := t.Deserialize(buf[:cut])
			h.Assert(err != nil, "truncated-encoding-rejected")
		}
	}
	h.Cover("end")
}

// VerifC01Boundary: acceptance at the key-length boundary of the format (uint16 length
// prefix): an entry the writer accepts must read back identically; otherwise it must be rejected.
func VerifC01Boundary(h *verifrt.H) {
	lens := []int{0, 1, 65535, 65536, 65537, 70000}
	kl := lens[h.Choose("keyLenClass", len(lens))]
	key := strings.Repeat("k", kl)
	data := h.Bytes("data", h.Len("dLen", 0, 2))
	op := uint8(h.IntRange("opcode", 1, 2))
	path := h.TempDir() + "/b.hyd"
	w, err := NewFileWriter(path, h.Param("blockSize", 64))
	h.Assert(err == nil, "open")
	werr := w.WriteEntry(Entry{Operation: op, Key: key, Data: data})
	cerr := w.Close()
	accepted := werr == nil && cerr == nil
	idx, _, lerr := vfLoad(h, path)
	if accepted {
		h.Assert(lerr == nil, "accepted-write-loads")
		v, ok := idx[key]
		h.Assert(ok && vfBytesEq(v, data) && len(idx) == 1, "accepted-write-reads-back-identically")
	} else {
		h.Assert(lerr == nil && len(idx) == 0, "rejected-write-leaves-file-loadable-and-empty")
	}
	h.Cover("end")
}

// VerifC01Fold: a symbolic history of writer operations across sessions; reading the file back
// yields exactly the last value per live key, the stored name, and consistent header counters.
// Key bytes are symbolic, so the solver decides which keys alias; the block size is symbolic,
// so it decides where flushes fall.
func VerifC01Fold(h *verifrt.H) {
	path := h.TempDir() + "/s.hyd"
	bs := h.IntRange("blockSize", 1, 64)
	name := h.String("name", 1)
	ref := &vfRef{}
	w, err := NewFileWriterWithName(path, bs, name)
	h.Assert(err == nil, "open")
	written := 0
	n := h.Param("nOps", 3)
	for i := 0; i < n; i++ {
		switch h.Choose("op", 4+h.Param("batchOp", 0)) {
		case 0:
			e := vfEntry(h, h.Param("maxKey", 1), h.Param("maxData", 1))
			if w.WriteEntry(e) == nil {
				ref.apply(e)
				written++
			}
		case 1:
			h.Assert(w.Flush() == nil, "flush")
		case 2:
			h.Assert(w.Sync() == nil, "sync")
		case 3:
			h.Assert(w.Close() == nil, "close")
			w, err = NewFileWriter(path, bs)
			h.Assert(err == nil, "reopen")
		case 4:
			e1 := vfEntry(h, h.Param("maxKey", 1), 1)
			e2 := vfEntry(h, h.Param("maxKey", 1), 1)
			if w.WriteEntries([]Entry{e1, e2}) == nil {
				ref.apply(e1)
				ref.apply(e2)
				written += 2
			}
		}
	}
	h.Assert(w.Close() == nil, "final-close")
	r, err := NewFileReader(path)
	h.Assert(err == nil, "reader")
	idx, got, err := r.LoadIndex()
	h.Assert(err == nil, "load-ok")
	h.Assert(got == name, "name-preserved")
	h.Assert(ref.equals(idx), "last-writer-wins")
	r.Close()
	h.Cover("end")
}

var vfDataLens = []int{0, 1, 9, 20}

// VerifC01Sizes: entries of very different sizes (payload 0, 1, 9 or 20 symbolic bytes) against
// a symbolic block size, so that an entry can be smaller than half a block, fill a block on its
// own or exceed it while earlier entries are still buffered: the file replays to the
// last-writer-wins fold in WRITE order, whatever the writer does with oversized entries.
func VerifC01Sizes(h *verifrt.H) {
	path := h.TempDir() + "/z.hyd"
	bs := h.IntRange("blockSize", 1, 64)
	ref := &vfRef{}
	w, err := NewFileWriterWithName(path, bs, "n")
	h.Assert(err == nil, "open")
	n := h.Param("nOps", 3)
	var es []Entry
	for i := 0; i < n; i++ {
		e := Entry{Operation: vfOpcodes[h.Choose("opcode", h.Param("opcodes", 2))], Key: h.String("key", 1)}
		e.Data = h.Bytes("data", vfDataLens[h.Choose("dLenClass", len(vfDataLens))])
		es = append(es, e)
	}
	if h.Choose("batch", 2) == 1 {
		if w.WriteEntries(es) == nil {
			for _, e := range es {
				ref.apply(e)
			}
		}
	} else {
		for _, e := range es {
			if w.WriteEntry(e) == nil {
				ref.apply(e)
			}
		}
	}
	h.Assert(w.Close() == nil, "final-close")
	idx, _, lerr := vfLoad(h, path)
	h.Assert(lerr == nil, "sizes-load-ok")
	h.Assert(ref.equals(idx), "sizes-last-writer-wins")
	h.Cover("end")
}

// ---------- C02 ----------

var vfKeys = []string{"a", "b", "c"}

// vfConcEntry: concrete key from a small set (aliasing by choice), symbolic payload byte.
func vfConcEntry(h *verifrt.H) Entry {
	e := Entry{Operation: vfOpcodes[h.Choose("opcode", 2)], Key: vfKeys[h.Choose("key", 2)]}
	if e.Operation != OpDelete {
		e.Data = h.Bytes("data", 1)
	}
	return e
}

// VerifC02Crash: a writer history, then a crash at ANY point of the file-operation log after
// the last Sync (loss of the unsynced suffix, plus every distinct torn prefix of the next
// write), then Load: no error, the state equals the fold at some flush boundary not older than
// the last Sync. Then a new writer appends and syncs; reload has the new entry and the old ones.
func VerifC02Crash(h *verifrt.H) {
	path := h.TempDir() + "/c.hyd"
	bs := h.IntRange("blockSize", 1, 48)
	h.Snapshot(path)
	ref := &vfRef{}
	w, err := NewFileWriterWithName(path, bs, "n")
	h.Assert(err == nil, "open")
	boundaries := []*vfRef{ref.clone()}
	cleanLens := []int{len(h.FileBytes(path))}
	syncedAt := 0
	n := h.Param("nOps", 2)
	for i := 0; i < n; i++ {
		h.Snapshot(path)
		switch h.Choose("op", 3) {
		case 0:
			e := vfConcEntry(h)
			if w.WriteEntry(e) == nil {
				ref.apply(e)
			}
		case 1:
			h.Assert(w.Flush() == nil, "flush")
		case 2:
			h.Assert(w.Sync() == nil, "sync")
			syncedAt = len(boundaries) // the boundary appended below
		}
		if w.BufferCount() == 0 {
			boundaries = append(boundaries, ref.clone())
			cleanLens = append(cleanLens, len(h.FileBytes(path)))
		}
	}
	if syncedAt >= len(boundaries) {
		syncedAt = len(boundaries) - 1
	}
	h.Snapshot(path)
	h.CrashImage(path)
	imgLen := len(h.FileBytes(path))
	torn := true
	for _, l := range cleanLens {
		if l == imgLen {
			torn = false
		}
	}
	_ = torn
	idx, _, lerr := vfLoad(h, path)
	// Only a file torn while it was being created (shorter than header+name: it never held a
	// block, nothing was ever synced) may be unreadable; the chronicler then starts empty.
	h.Assert(lerr == nil || imgLen < 64+1 && syncedAt == 0, "crash-load-ok")
	if lerr != nil {
		idx = map[string][]byte{}
	}
	match := false
	for i := syncedAt; i < len(boundaries); i++ {
		if boundaries[i].equals(idx) {
			match = true
		}
	}
	h.Assert(match, "crash-load-state-is-a-flush-boundary-not-older-than-last-sync")
	// writes after recovery are themselves recoverable
	w2, err := NewFileWriter(path, bs)
	h.Assert(err == nil, "after-recovery-reopen")
	if err != nil {
		return
	}
	ne := Entry{Operation: OpInsert, Key: "zz", Data: []byte{7}}
	h.Assert(w2.WriteEntry(ne) == nil && w2.Sync() == nil && w2.Close() == nil, "after-recovery-write")
	idx2, _, lerr2 := vfLoad(h, path)
	h.Assert(lerr2 == nil, "after-recovery-load-ok")
	if lerr2 == nil {
		v, ok := idx2["zz"]
		h.Assert(ok && vfBytesEq(v, []byte{7}), "after-recovery-new-entry-present")
		for k, v := range idx {
			v2, ok := idx2[k]
			h.Assert(ok && vfBytesEq(v, v2), "after-recovery-old-entries-present")
		}
	}
	h.Cover("end")
}

// ---------- C25 ----------

// VerifC25DiskFull: the disk becomes full at an arbitrary byte offset (a write is cut short
// with ENOSPC), the fault clears, more entries are written and synced. Everything synced
// before the fault stays readable; entries acknowledged and synced after the fault cleared are
// readable; the load itself does not fail.
func VerifC25DiskFull(h *verifrt.H) {
	path := h.TempDir() + "/d.hyd"
	bs := h.Param("blockSize", 16)
	w, err := NewFileWriterWithName(path, bs, "n")
	h.Assert(err == nil, "open")
	e0 := Entry{Operation: OpInsert, Key: "a", Data: h.Bytes("d0", 1)}
	h.Assert(w.WriteEntry(e0) == nil && w.Sync() == nil, "first-entry-durable")
	size := len(h.FileBytes(path))
	room := h.Len("roomBeforeFull", 0, h.Param("maxRoom", 24))
	h.DiskLimit(path, size+room)
	e1 := Entry{Operation: OpInsert, Key: "b", Data: h.Bytes("d1", 1)}
	err1 := w.WriteEntry(e1)
	if err1 == nil {
		err1 = w.Sync()
	}
	h.DiskClear(path)
	e2 := Entry{Operation: OpInsert, Key: "c", Data: h.Bytes("d2", 1)}
	err2 := w.WriteEntry(e2)
	if err2 == nil {
		err2 = w.Sync()
	}
	// further blocks after the fault cleared (a stale write position would only show now)
	e3 := Entry{Operation: OpInsert, Key: "d", Data: h.Bytes("d3", 1)}
	err3 := w.WriteEntry(e3)
	if err3 == nil {
		err3 = w.Sync()
	}
	e4 := Entry{Operation: OpInsert, Key: "e", Data: h.Bytes("d4", 1)}
	err4 := w.WriteEntry(e4)
	if err4 == nil {
		err4 = w.Sync()
	}
	w.Close()
	idx, _, lerr := vfLoad(h, path)
	h.Assert(lerr == nil, "diskfull-load-ok")
	if lerr != nil {
		return
	}
	v, ok := idx["a"]
	h.Assert(ok && vfBytesEq(v, e0.Data), "diskfull-durable-data-still-readable")
	if err1 == nil {
		v, ok := idx["b"]
		h.Assert(ok && vfBytesEq(v, e1.Data), "diskfull-acknowledged-entry-present")
	}
	if err2 == nil {
		v, ok := idx["c"]
		h.Assert(ok && vfBytesEq(v, e2.Data), "diskfull-entry-after-fault-cleared-present")
	}
	if err3 == nil {
		v, ok := idx["d"]
		h.Assert(ok && vfBytesEq(v, e3.Data), "diskfull-entry-after-fault-cleared-present")
	}
	if err4 == nil {
		v, ok := idx["e"]
		h.Assert(ok && vfBytesEq(v, e4.Data), "diskfull-entry-after-fault-cleared-present")
	}
	// and a new session on the same file works too
	w2, oerr := NewFileWriter(path, bs)
	h.Assert(oerr == nil, "diskfull-reopen-ok")
	if oerr == nil {
		e5 := Entry{Operation: OpInsert, Key: "f", Data: []byte{5}}
		h.Assert(w2.WriteEntry(e5) == nil && w2.Close() == nil, "diskfull-append-after-reopen")
		idx2, _, lerr2 := vfLoad(h, path)
		h.Assert(lerr2 == nil && len(idx2) == len(idx)+1, "diskfull-reload-after-reopen")
	}
	h.ClearKnown()
	h.Cover("end")
}

// ---------- C29 ----------

// VerifC29Name: ReadSwampName returns the name given to the writer, for the V3 layout, the
// legacy V2 layout (name in a metadata entry), after a second append session, and the name is
// truncated at most at the documented uint16 bound.
func VerifC29Name(h *verifrt.H) {
	path := h.TempDir() + "/n.hyd"
	name := h.String("name", h.Len("nameLen", 0, h.Param("maxName", 3)))
	layout := h.Choose("layout", 5)
	switch layout {
	case 3, 4: // drained swamp: every key deleted again, then compacted (3: Compact, 4: CompactFromIndex)
		w, err := NewFileWriterWithName(path, 32, name)
		h.Assert(err == nil, "open")
		h.Assert(w.WriteEntry(Entry{Operation: OpInsert, Key: "a", Data: []byte{1}}) == nil, "write")
		h.Assert(w.WriteEntry(Entry{Operation: OpDelete, Key: "a"}) == nil, "delete")
		h.Assert(w.Close() == nil, "close")
		if layout == 3 {
			_, cerr := NewCompactor(path, 32, 0).ForceCompact()
			h.Assert(cerr == nil, "compact-drained")
		} else {
			_, cerr := CompactFromIndex(path, 32, name, map[string][]byte{}, 2)
			h.Assert(cerr == nil, "compact-drained")
		}
		if !h.FileExists(path) {
			// deleting a file without live records is a legal outcome: nothing to look up
			h.Cover("end")
			return
		}
	case 0, 1: // V3 writer; 1 = plus a second append session
		w, err := NewFileWriterWithName(path, 32, name)
		h.Assert(err == nil, "open")
		h.Assert(w.WriteEntry(Entry{Operation: OpInsert, Key: "a", Data: []byte{1}}) == nil, "write")
		h.Assert(w.Close() == nil, "close")
		if layout == 1 {
			w, err = NewFileWriter(path, 32)
			h.Assert(err == nil, "reopen")
			h.Assert(w.WriteEntry(Entry{Operation: OpUpdate, Key: "a", Data: []byte{2}}) == nil, "write2")
			h.Assert(w.Close() == nil, "close2")
		}
	case 2: // legacy V2 layout built with the real header/entry encoders
		hd := NewFileHeader()
		hd.Version = Version2
		hd.NameLength = 0
		file := append([]byte{}, hd.Serialize()...)
		entries := []Entry{{Operation: OpInsert, Key: "a", Data: []byte{1}}}
		if len(name) > 0 {
			entries = append([]Entry{{Operation: OpMetadata, Key: MetadataEntryKey, Data: []byte(name)}}, entries...)
		}
		bh, comp, err := CompressEntries(entries)
		h.Assert(err == nil, "compress")
		file = append(file, bh.Serialize()...)
		file = append(file, comp...)
		h.PutFile(path, file)
	}
	got, err := ReadSwampName(path)
	h.Assert(err == nil, "name-lookup-ok")
	h.Assert(got == name, "name-lookup-equals-written-name")
	h.Cover("end")
}

// VerifC29LongName: the stored name is found again for long names too. Name lengths are the
// buffer-size boundary classes 2^k-1, 2^k, 2^k+1 for k = 5..maxPow (plus 65535, the format
// maximum, when maxPow = 16), every byte symbolic; fresh file, file with a second append
// session, and compacted file. ReadSwampName, FileReader.GetSwampName and LoadIndex all
// return exactly the written name.
func VerifC29LongName(h *verifrt.H) {
	path := h.TempDir() + "/n.hyd"
	maxPow := h.Param("maxPow", 12)
	var lens []int
	for k := 5; k <= maxPow; k++ {
		for d := -1; d <= 1; d++ {
			if n := (1 << k) + d; n <= 65535 {
				lens = append(lens, n)
			}
		}
	}
	n := lens[h.Choose("nameLenClass", len(lens))]
	name := h.String("name", n)
	layout := h.Choose("layout", 3)
	w, err := NewFileWriterWithName(path, 32, name)
	h.Assert(err == nil, "open")
	h.Assert(w.WriteEntry(Entry{Operation: OpInsert, Key: "a", Data: []byte{1}}) == nil, "write")
	h.Assert(w.Close() == nil, "close")
	switch layout {
	case 1:
		w, err = NewFileWriter(path, 32)
		h.Assert(err == nil, "reopen")
		h.Assert(w.WriteEntry(Entry{Operation: OpUpdate, Key: "a", Data: []byte{2}}) == nil, "write2")
		h.Assert(w.Close() == nil, "close2")
	case 2:
		w, err = NewFileWriter(path, 32)
		h.Assert(err == nil, "reopen")
		h.Assert(w.WriteEntry(Entry{Operation: OpUpdate, Key: "a", Data: []byte{2}}) == nil, "write2")
		h.Assert(w.Close() == nil, "close2")
		res, cerr := NewCompactor(path, 32, 0.01).Compact()
		h.Assert(cerr == nil && res.Compacted, "compact")
	}
	got, err := ReadSwampName(path)
	h.Assert(err == nil, "long-name-lookup-ok")
	h.Assert(got == name, "long-name-lookup-equals-written-name")
	r, err := NewFileReader(path)
	h.Assert(err == nil, "long-name-open")
	if err == nil {
		h.Assert(r.GetSwampName() == name, "long-name-reader-equals-written-name")
		_, ln, lerr := r.LoadIndex()
		r.Close()
		h.Assert(lerr == nil && ln == name, "long-name-load-equals-written-name")
	}
	h.Cover("end")
}

