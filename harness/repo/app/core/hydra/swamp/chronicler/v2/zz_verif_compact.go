//go:build verif

package v2

import (
	"github.com/hydraide/hydraide/app/verifrt"
)

func vfSameIndex(a, b map[string][]byte) bool {
	if len(a) != len(b) {
		return false
	}
	for k, v := range a {
		w, ok := b[k]
		if !ok || !vfBytesEq(v, w) {
			return false
		}
	}
	return true
}

// vfBuildFragmented writes a history with overwrites/deletes and returns the live index.
func vfBuildFragmented(h *verifrt.H, path string, name string) map[string][]byte {
	w, err := NewFileWriterWithName(path, 32, name)
	h.Assert(err == nil, "open")
	n := h.Param("nOps", 3)
	for i := 0; i < n; i++ {
		e := vfConcEntry(h)
		h.Assert(w.WriteEntry(e) == nil, "write")
	}
	h.Assert(w.Close() == nil, "close")
	idx, _, err := vfLoad(h, path)
	h.Assert(err == nil, "load-before")
	return idx
}

// VerifC03Compact: every v2 compaction entry point leaves LoadIndex unchanged, whatever
// leftover temp file is present (absent / a valid stale file / a valid file with a torn last
// block / arbitrary bytes), for every map iteration order; no temp file is left behind.
func VerifC03Compact(h *verifrt.H) {
	h.MapOrderNondet(true)
	path := h.TempDir() + "/m.hyd"
	temp := path + ".compact"
	before := vfBuildFragmented(h, path, "nm")
	tempKind := h.Choose("leftoverTemp", 4)
	switch tempKind {
	case 1, 2:
		tw, err := NewFileWriterWithName(temp, 32, "nm")
		h.Assert(err == nil, "temp-open")
		h.Assert(tw.WriteEntry(Entry{Operation: OpInsert, Key: "stale", Data: []byte{9}}) == nil && tw.Close() == nil, "temp-write")
		if tempKind == 2 {
			b := h.FileBytes(temp)
			h.PutFile(temp, b[:len(b)-3])
		}
	case 3:
		h.PutFile(temp, h.Bytes("garbage", 8))
	}
	entry := h.Choose("entryPoint", 5)
	var err error
	var res *CompactionResult
	switch entry {
	case 0:
		res, err = NewCompactor(path, 32, 0.01).Compact()
	case 1:
		res, err = NewCompactor(path, 32, 0.3).CompactIfNeeded()
	case 2:
		res, err = NewCompactor(path, 32, 0.9).ForceCompact()
	case 3:
		res, err = CompactFromIndex(path, 32, "nm", before, 3)
	case 4: // what chroniclerV2.runCompactionLocked does
		_ = CleanupCompactionTemp(path)
		res, err = NewCompactor(path, 32, 0).Compact()
	}
	_, _ = res, err // a compaction that reports an error must still leave the state intact
	after, name, lerr := vfLoad(h, path)
	h.Assert(lerr == nil, "compact-file-still-loads")
	if lerr == nil {
		h.Assert(vfSameIndex(before, after), "compact-preserves-live-records")
		h.Assert(name == "nm", "compact-preserves-name")
	}
	h.ClearKnown()
	h.Cover("end")
}

// VerifC03Crash: a crash at any point of a compaction's own file operations (temp create,
// writes, rename) leaves, after the loader's cleanup, exactly the old or the new state
// (both equal the pre-compaction index).
func VerifC03Crash(h *verifrt.H) {
	h.MapOrderNondet(false)
	path := h.TempDir() + "/x.hyd"
	before := vfBuildFragmented(h, path, "nm")
	// make the pre-compaction file durable, then compact and crash somewhere inside
	w, err := NewFileWriter(path, 32)
	h.Assert(err == nil && w.Sync() == nil && w.Close() == nil, "durable")
	if h.Choose("entryPoint", 2) == 0 {
		NewCompactor(path, 32, 0).ForceCompact()
	} else {
		CompactFromIndex(path, 32, "nm", before, 3)
	}
	h.CrashImage(path)
	_ = CleanupCompactionTemp(path)
	after, name, lerr := vfLoad(h, path)
	h.Assert(lerr == nil, "crash-in-compaction-file-loads")
	if lerr == nil {
		h.Assert(vfSameIndex(before, after), "crash-in-compaction-old-or-new-state")
		h.Assert(name == "nm", "crash-in-compaction-name")
	}
	h.Cover("end")
}

// ---------- C04 ----------

// VerifC04Arbitrary: loading an arbitrary file (symbolic header fields and body bytes, every
// length up to the bound) never panics, terminates, and never allocates out of proportion to
// the file (engine obligation on every make() with a symbolic size).
func VerifC04Arbitrary(h *verifrt.H) {
	path := h.TempDir() + "/a.hyd"
	nameLen := h.Len("nameLen", 0, 2)
	hd := FileHeader{Magic: [4]byte{'H', 'Y', 'D', 'R'}, Version: h.Uint16("version"), Flags: h.Uint16("flags"), CreatedAt: h.Int64("created"),
		ModifiedAt: h.Int64("modified"), BlockSize: h.Uint32("blockSize"), EntryCount: h.Uint64("entryCount"), BlockCount: h.Uint64("blockCount"), NameLength: uint16(nameLen)}
	file := hd.Serialize()
	if h.Choose("magic", 2) == 1 {
		copy(file[0:4], h.Bytes("magicBytes", 4))
	}
	bodyLen := h.Len("bodyLen", 0, h.Param("maxBody", 24))
	file = append(file, h.Bytes("body", nameLen+bodyLen)...)
	cut := h.Len("headerCut", 0, 1)
	if cut == 1 {
		file = file[:h.Len("fileLen", 0, 63)]
	}
	h.PutFile(path, file)
	r, err := NewFileReader(path)
	if err == nil {
		r.LoadIndex()
		r.ScanBlockHeaders()
		r.CalculateFragmentation()
		r.Close()
		ReadSwampName(path)
	}
	h.ClearKnown()
	h.Cover("end")
}

// VerifC04Damaged: a writer-produced file, then one mutation (truncate anywhere / overwrite one
// byte anywhere with a different value / overwrite a block-header size field). Loading reports
// the damage or returns the records of a prefix of the original blocks - never different records.
// CRC32 is modelled as an injective function for the (original, mutated) pair.
func VerifC04Damaged(h *verifrt.H) {
	path := h.TempDir() + "/g.hyd"
	w, err := NewFileWriterWithName(path, 8, "nm")
	h.Assert(err == nil, "open")
	ref := &vfRef{}
	prefixes := []*vfRef{ref.clone()}
	for i := 0; i < h.Param("nEntries", 2); i++ {
		e := Entry{Operation: OpInsert, Key: vfKeys[i], Data: h.Bytes("data", 1)}
		h.Assert(w.WriteEntry(e) == nil, "write")
		ref.apply(e)
		if w.BufferCount() == 0 {
			prefixes = append(prefixes, ref.clone())
		}
	}
	h.Assert(w.Close() == nil, "close")
	if w.BufferCount() == 0 {
		prefixes = append(prefixes, ref.clone())
	}
	orig := h.FileBytes(path)
	mut := append([]byte{}, orig...)
	dataStart := 64 + 2
	switch h.Choose("mutation", 3) {
	case 0:
		mut = mut[:h.Len("truncateAt", 0, len(orig)-1)]
	case 1:
		p := h.Len("pos", dataStart, len(orig)-1)
		b := h.Uint8("newByte")
		h.Assume(b != orig[p])
		mut[p] = b
	case 2:
		p := dataStart + 4*h.Choose("field", 2) // CompressedSize | UncompressedSize of the first block
		v := h.Bytes("fieldBytes", 4)
		h.Assume(v[0] != orig[p] || v[1] != orig[p+1] || v[2] != orig[p+2] || v[3] != orig[p+3])
		copy(mut[p:p+4], v)
	}
	h.PutFile(path, mut)
	idx, _, lerr := vfLoad(h, path)
	h.ClearKnown()
	if lerr == nil {
		ok := false
		for _, p := range prefixes {
			if p.equals(idx) {
				ok = true
			}
		}
		h.Assert(ok, "damaged-file-never-misread")
	}
	h.Cover("end")
}
