//go:build verif

package bucket

import (
	"errors"
	"math"

	"github.com/hydraide/hydraide/app/core/hydra/swamp/bucket/valuecanon"
	"github.com/hydraide/hydraide/app/core/hydra/swamp/treasure"
	"github.com/hydraide/hydraide/app/core/hydra/swamp/treasure/guard"
	"github.com/hydraide/hydraide/app/verifrt"
)

// c08decode stands in for msgpack.Unmarshal (reflection) on bodies of the shape {"f": <numeric
// leaf>}: it returns the Go value the msgpack library documents for each leaf code.
func c08decode(data []byte, v interface{}) error {
	p, ok := v.(*map[string]any)
	if !ok || len(data) < 4 || data[0] != 0x81 || data[1] != 0xa1 || data[2] != 'f' {
		return errors.New("c08decode: shape not modelled")
	}
	b := data[3:]
	u := func(n int) uint64 {
		var x uint64
		for i := 1; i <= n; i++ {
			x = x<<8 | uint64(b[i])
		}
		return x
	}
	var val any
	switch c := b[0]; {
	case c <= 0x7f || c >= 0xe0:
		val = int8(c)
	case c == 0xcc:
		val = uint8(u(1))
	case c == 0xcd:
		val = uint16(u(2))
	case c == 0xce:
		val = uint32(u(4))
	case c == 0xcf:
		val = u(8)
	case c == 0xd0:
		val = int8(u(1))
	case c == 0xd1:
		val = int16(u(2))
	case c == 0xd2:
		val = int32(u(4))
	case c == 0xd3:
		val = int64(u(8))
	case c == 0xcb:
		val = math.Float64frombits(u(8))
	default:
		return errors.New("c08decode: leaf not modelled")
	}
	*p = map[string]any{"f": val}
	return nil
}

var c08codes = []struct {
	code  byte
	width int
}{{0xcc, 1}, {0xcd, 2}, {0xd0, 1}, {0xd3, 8}, {0xcf, 8}, {0xcb, 8}}

var c08floats = 0

func c08rec(h *verifrt.H, key string) (treasure.Treasure, valuecanon.Key) {
	c := c08codes[h.Choose("leafCode", len(c08codes)-1+c08floats)]
	body := append([]byte{0x81, 0xa1, 'f', c.code}, h.Bytes("leaf", c.width)...)
	t := treasure.New(nil)
	g := t.StartTreasureGuard(true, guard.BodyAuthID)
	t.BodySetKey(g, key)
	t.SetContentByteArray(g, body)
	t.ReleaseTreasureGuard(g)
	k, _ := extractKey(t, "f")
	return t, k
}

// VerifC08Bucket: the auto-built equality index of one body field, with records whose field is
// a numeric leaf of any kind with a symbolic value, goes through build -> lookup -> mutation
// (insert / update that changes the value or its kind / delete) -> lookup. After every step a
// lookup of a symbolic value of any numeric kind returns exactly the records a full scan with
// the canonical equality rule selects.
func VerifC08Bucket(h *verifrt.H) {
	c08floats = h.Param("floats", 0)
	c08bucket(h)
}

// VerifC08BucketFloat: the same with float64 leaves and float64 lookups included (every
// cross-kind pair int/uint/float, fully symbolic, so integers beyond 2^53 that a float64
// holds exactly are covered); without mutation steps in the quick tier, because each
// int<->float conversion query is expensive.
func VerifC08BucketFloat(h *verifrt.H) {
	c08floats = 1
	c08bucket(h)
}

func c08bucket(h *verifrt.H) {
	h.Stub("github.com/vmihailenco/msgpack/v5.Unmarshal", c08decode)
	b := New("f").(*bucket)
	type rec struct {
		t treasure.Treasure
		k valuecanon.Key
	}
	recs := map[string]rec{}
	t1, k1 := c08rec(h, "r1")
	recs["r1"] = rec{t1, k1}
	snap := map[string]treasure.Treasure{"r1": t1}
	h.Assert(b.BuildEquality(snap) == nil, "build")
	var probe any
	switch h.Choose("probeKind", 2+c08floats) {
	case 0:
		probe = h.Int64("probe")
	case 1:
		probe = h.Uint64("probe")
	case 2:
		f := h.Float64("probe")
		h.Assume(f == f)
		probe = f
	}
	check := func(label string) {
		got := b.LookupEqual(probe)
		want := 0
		for _, r := range recs {
			if valuecanon.Equal(r.k, valuecanon.Canonicalize(probe)) {
				want++
				found := false
				for _, t := range got {
					if t.GetKey() == r.t.GetKey() {
						found = true
					}
				}
				h.Assert(found, label+"-index-finds-every-matching-record")
			}
		}
		h.Assert(len(got) == want, label+"-index-returns-only-matching-records")
	}
	check("after-build")
	steps := h.Param("mutations", 2)
	for i := 0; i < steps; i++ {
		switch h.Choose("mutation", 3) {
		case 0:
			t, k := c08rec(h, "r2")
			_, existed := recs["r2"]
			if existed {
				h.Assert(b.OnUpdate(t) == nil, "update")
			} else {
				h.Assert(b.OnInsert(t) == nil, "insert")
			}
			recs["r2"] = rec{t, k}
		case 1:
			t, k := c08rec(h, "r1")
			if _, ok := recs["r1"]; ok {
				h.Assert(b.OnUpdate(t) == nil, "update")
			} else {
				h.Assert(b.OnInsert(t) == nil, "insert")
			}
			recs["r1"] = rec{t, k}
		case 2:
			b.OnDelete("r1")
			delete(recs, "r1")
		}
		check("after-mutation")
	}
	h.Cover("end")
}
