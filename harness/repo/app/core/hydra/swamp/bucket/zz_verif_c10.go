//go:build verif

package bucket

import (
	"github.com/hydraide/hydraide/app/core/hydra/swamp/treasure"
	"github.com/hydraide/hydraide/app/core/hydra/swamp/treasure/guard"
	"github.com/hydraide/hydraide/app/verifrt"
)

func c10rec(key string, leaf byte, extra byte) treasure.Treasure {
	t := treasure.New(nil)
	g := t.StartTreasureGuard(true, guard.BodyAuthID)
	t.BodySetKey(g, key)
	t.SetContentByteArray(g, []byte{0x81, 0xa1, 'f', 0xcc, leaf, extra}[:5])
	t.ReleaseTreasureGuard(g)
	return t
}

// VerifC10Bucket: a filtered read (LookupEqual / LookupIn / CountForValue on a built equality
// index) overlaps one mutation hook of the same bucket - an update that keeps the indexed
// value, an update that moves it, an insert of a new record, a delete - under every schedule
// within the preemption bound, with the happens-before race detector watching every map and
// slice access of the index: no unsynchronised conflicting access (a concurrent map write
// during an iteration is a fatal error of the Go runtime, i.e. a process crash), no panic, and
// the reader sees the record at most once.
func VerifC10Bucket(h *verifrt.H) {
	h.Stub("github.com/vmihailenco/msgpack/v5.Unmarshal", c08decode)
	b := New("f").(*bucket)
	r1, r2 := c10rec("r1", 5, 0), c10rec("r2", 5, 0)
	h.Assert(b.BuildEquality(map[string]treasure.Treasure{"r1": r1, "r2": r2}) == nil, "build")
	mut := h.Choose("mutation", 4)
	rd := h.Choose("read", 3)
	h.Go("writer", func() {
		switch mut {
		case 0: // re-save keeping the indexed value
			h.Assert(b.OnUpdate(c10rec("r1", 5, 1)) == nil, "update-same")
		case 1: // value moves to another slot
			h.Assert(b.OnUpdate(c10rec("r1", 6, 0)) == nil, "update-move")
		case 2:
			h.Assert(b.OnInsert(c10rec("r3", 5, 0)) == nil, "insert")
		case 3:
			b.OnDelete("r1")
		}
	})
	h.Go("reader", func() {
		switch rd {
		case 0:
			got := b.LookupEqual(uint64(5))
			n := 0
			for _, t := range got {
				if t.GetKey() == "r2" {
					n++
				}
			}
			h.Assert(n == 1, "untouched-record-found-once")
		case 1:
			got := b.LookupIn([]any{uint64(5), uint64(6)})
			n := 0
			for _, t := range got {
				if t.GetKey() == "r2" {
					n++
				}
			}
			h.Assert(n == 1, "untouched-record-found-once")
		case 2:
			c := b.CountForValue(uint64(5))
			h.Assert(c >= 1 && c <= 3, "count-in-range")
		}
	})
	h.AtQuiescence(func() { h.Cover("end") })
}
