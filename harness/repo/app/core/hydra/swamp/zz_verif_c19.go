//go:build verif

package swamp

import (
	"time"

	"github.com/hydraide/hydraide/app/core/hydra/swamp/chronicler"
	"github.com/hydraide/hydraide/app/core/hydra/swamp/metadata"
	"github.com/hydraide/hydraide/app/core/hydra/swamp/treasure"
	"github.com/hydraide/hydraide/app/name"
	"github.com/hydraide/hydraide/app/verifrt"
)

type c19rec struct {
	status treasure.TreasureStatus
	val    int64
	at     int64
}

// VerifC19Order: two writers save two different symbolic values to the SAME key of one swamp
// that has a subscriber (the swamp's event callback, which reads the event the way the
// gateway's stream handler does: at delivery) - in-memory, write-interval and immediate-write
// (write interval 0) configuration, every interleaving within the preemption bound. At
// quiescence there is exactly one event per committed change, and the events of the record are
// in commit order: first the creation, then the modification, event times do not go back, the
// two events carry the two different committed values, and the last event carries the value the
// swamp holds at the end.
func VerifC19Order(h *verifrt.H) {
	h.BackgroundLowPriority(true)
	var got []c19rec
	cb := func(e *Event) {
		r := c19rec{status: e.StatusType, at: e.EventTime}
		if e.Treasure != nil {
			r.val, _ = e.Treasure.GetContentInt64()
		}
		got = append(got, r)
	}
	n := name.New().Sanctuary("s").Realm("r").Swamp("w")
	var s Swamp
	mode := h.Param("onlyMode", -1)
	if mode < 0 {
		mode = h.Choose("mode", 3)
	}
	switch mode {
	case 0:
		s = New(n, time.Hour, nil, cb, func(*Info) {}, func(name.Name) {}, metadata.NewNoop())
	default:
		chr := chronicler.NewV2WithName(h.TempDir()+"/sw", 2, n.Get())
		chr.CreateDirectoryIfNotExists()
		wi := time.Second
		if mode == 2 {
			wi = 0
		}
		s = New(n, time.Hour, &FilesystemSettings{ChroniclerInterface: chr, WriteInterval: wi}, cb, func(*Info) {}, func(name.Name) {}, metadata.NewNoop())
	}
	s.StartSendingEvents()
	vA, vB := h.Int64("vA"), h.Int64("vB")
	h.Assume(vA != 0 && vB != 0 && vA != vB)
	h.Go("writerA", func() {
		s.BeginVigil()
		defer s.CeaseVigil()
		c09set(s, "k", vA)
	})
	h.Go("writerB", func() {
		s.BeginVigil()
		defer s.CeaseVigil()
		c09set(s, "k", vB)
	})
	h.AtQuiescence(func() {
		h.Assert(len(got) == 2, "one-event-per-committed-change")
		if len(got) != 2 {
			return
		}
		h.Assert(got[0].status == treasure.StatusNew && got[1].status == treasure.StatusModified, "events-of-one-record-in-commit-order")
		h.Assert(got[0].at <= got[1].at, "event-times-do-not-go-back")
		h.Assert(got[0].val == vA && got[1].val == vB || got[0].val == vB && got[1].val == vA, "each-event-carries-its-committed-value")
		t, err := s.GetTreasure("k")
		h.Assert(err == nil, "key-present-at-the-end")
		if err == nil {
			final, _ := t.GetContentInt64()
			h.Assert(final == got[1].val, "last-event-carries-the-final-value")
		}
		h.Cover("end")
	})
}
