//go:build verif

package msgpackpatch

import (
	"math"
	"errors"

	"github.com/hydraide/hydraide/app/verifrt"
)

// numeric leaf codes and their payload widths
var c13Codes = []struct {
	code  byte
	width int
}{
	{0xcc, 1}, {0xcd, 2}, {0xce, 4}, {0xcf, 8}, // uint8..64
	{0xd0, 1}, {0xd1, 2}, {0xd2, 4}, {0xd3, 8}, // int8..64
	{0xca, 4}, {0xcb, 8}, // float32/64
}

// c13leaf: a numeric leaf with a chosen type code and a symbolic payload, or a symbolic fixint.
func c13leaf(h *verifrt.H, name string) []byte {
	k := h.Choose(name+"Code", len(c13Codes)+1)
	if k == len(c13Codes) {
		b := h.Bytes(name+"Fix", 1)
		h.Assume(b[0] <= 0x7f || b[0] >= 0xe0)
		return b
	}
	c := c13Codes[k]
	return append([]byte{c.code}, h.Bytes(name+"Payload", c.width)...)
}

// c13decode reads a numeric leaf independently of the package under test, from the msgpack
// specification: positive fixint 0x00-0x7f, negative fixint 0xe0-0xff (two's complement in the
// code byte), uint8/16/32/64 = 0xcc-0xcf, int8/16/32/64 = 0xd0-0xd3, float32/64 = 0xca/0xcb,
// big-endian payloads. class: 1 signed integer, 2 unsigned integer, 3 float (positive fixints
// count as unsigned, negative fixints as signed, like the typed codes they abbreviate).
func c13decode(raw []byte) (i int64, u uint64, f float64, class int) {
	be := func(p []byte) uint64 {
		var x uint64
		for _, b := range p {
			x = x<<8 | uint64(b)
		}
		return x
	}
	c := raw[0]
	switch {
	case c <= 0x7f:
		return 0, uint64(c), 0, 2
	case c >= 0xe0:
		return int64(int8(c)), 0, 0, 1
	case c == 0xcc:
		return 0, be(raw[1:2]), 0, 2
	case c == 0xcd:
		return 0, be(raw[1:3]), 0, 2
	case c == 0xce:
		return 0, be(raw[1:5]), 0, 2
	case c == 0xcf:
		return 0, be(raw[1:9]), 0, 2
	case c == 0xd0:
		return int64(int8(raw[1])), 0, 0, 1
	case c == 0xd1:
		return int64(int16(be(raw[1:3]))), 0, 0, 1
	case c == 0xd2:
		return int64(int32(be(raw[1:5]))), 0, 0, 1
	case c == 0xd3:
		return int64(be(raw[1:9])), 0, 0, 1
	case c == 0xca:
		return 0, 0, float64(math.Float32frombits(uint32(be(raw[1:5])))), 3
	case c == 0xcb:
		return 0, 0, math.Float64frombits(be(raw[1:9])), 3
	}
	return 0, 0, 0, 0
}

func c13class(c numericClass) int {
	switch c {
	case classInt:
		return 1
	case classUint:
		return 2
	case classFloat:
		return 3
	}
	return 0
}

// body {"a": leaf}
func c13body(leaf []byte) []byte { return append([]byte{0x81, 0xa1, 'a'}, leaf...) }

func c13same(a, b []byte) bool {
	if len(a) != len(b) {
		return false
	}
	for i := range a {
		if a[i] != b[i] {
			return false
		}
	}
	return true
}

// VerifC13Compare: a condition on a numeric field against a numeric threshold, every pair of
// type codes, symbolic payloads, every comparator: the condition is met exactly when the
// mathematical relation holds (NaN is equal to nothing and unordered), a class mismatch is an
// error, and a met condition with no ops returns the body byte-identically.
func VerifC13Compare(h *verifrt.H) {
	a := c13leaf(h, "a")
	b := c13leaf(h, "b")
	// reference values come from c13decode (the specification), not from the package
	ai, au, af, aclass := c13decode(a)
	bi, bu, bf, bclass := c13decode(b)
	xi, xu, xf, ac, ea := readNumericLeaf(a)
	_, _, _, bc, eb := readNumericLeaf(b)
	h.Assert(ea == nil && eb == nil && ac != classNone && bc != classNone, "numeric-leaves-decode")
	h.Assert(c13class(ac) == aclass && c13class(bc) == bclass, "numeric-leaf-class-as-specified")
	h.Assert(xi == ai && xu == au && (xf == af || xf != xf && af != af), "numeric-leaf-value-as-specified")
	op := CondOp(h.Choose("condOp", 6))
	body := c13body(a)
	out, err := ApplyWithCondition(body, nil, &Condition{Path: "a", Op: op, Threshold: b})
	if ac != bc {
		h.Assert(err != nil && !errors.Is(err, ErrConditionNotMet), "compare-class-mismatch-is-an-error")
		h.Cover("end")
		return
	}
	var eq, lt, gt bool
	switch ac {
	case classInt:
		eq, lt, gt = ai == bi, ai < bi, ai > bi
	case classUint:
		eq, lt, gt = au == bu, au < bu, au > bu
	case classFloat:
		eq, lt, gt = af == bf, af < bf, af > bf
	}
	want := false
	switch op {
	case CondEqual:
		want = eq
	case CondNotEqual:
		want = !eq
	case CondGreaterThan:
		want = gt
	case CondGreaterThanOrEqual:
		want = gt || eq
	case CondLessThan:
		want = lt
	case CondLessThanOrEqual:
		want = lt || eq
	}
	if want {
		h.Assert(err == nil, "compare-condition-met-when-relation-holds")
		h.Assert(err != nil || c13same(out, body), "compare-met-condition-no-ops-body-identical")
	} else {
		h.Assert(errors.Is(err, ErrConditionNotMet), "compare-condition-not-met-when-relation-fails")
	}
	h.Cover("end")
}

// VerifC13Inc: INC on {"a": target} with every (target code, delta code) pair and symbolic
// payloads. Same class: the result keeps the target's type code (fixints are widened to the
// 64-bit code of their class) and holds the sum wrapped to that width; the delta bytes and the
// rest of the body are untouched. Different class: error, no result.
func VerifC13Inc(h *verifrt.H) {
	t := c13leaf(h, "t")
	d := c13leaf(h, "d")
	ti, tu, tf, tclass := c13decode(t)
	di, du, df, dclass := c13decode(d)
	_, _, _, tc, _ := readNumericLeaf(t)
	_, _, _, dc, _ := readNumericLeaf(d)
	h.Assert(c13class(tc) == tclass && c13class(dc) == dclass, "numeric-leaf-class-as-specified")
	body := append(c13body(t)[:0:0], c13body(t)...)
	body[0] = 0x82
	body = append(body, 0xa1, 'z', 0xc3) // second, untouched field z=true
	out, err := Apply(body, []Op{{Kind: OpInc, Path: "a", Value: d}})
	if tc != dc {
		h.Assert(err != nil && out == nil, "inc-class-mismatch-rejected")
		h.Cover("end")
		return
	}
	h.Assert(err == nil, "inc-same-class-succeeds")
	if err != nil {
		return
	}
	skel, perr := Parse(out)
	h.Assert(perr == nil && skel.Kind == KindMap && len(skel.MapFields) == 2, "inc-result-well-formed")
	if perr != nil {
		return
	}
	h.Assert(skel.MapFields[0].Key == "a" && skel.MapFields[1].Key == "z", "inc-field-order-kept")
	h.Assert(c13same(leafBytes(skel.MapFields[1].Value, out), []byte{0xc3}), "inc-untouched-field-bytes-identical")
	res := leafBytes(skel.MapFields[0].Value, out)
	ri, ru, rf, rclass := c13decode(res)
	h.Assert(rclass == tclass, "inc-keeps-numeric-class")
	code := t[0]
	fix := code <= 0x7f || code >= 0xe0
	if !fix {
		h.Assert(res[0] == code, "inc-keeps-type-code")
	}
	switch {
	case fix && tc == classInt:
		h.Assert(ri == ti+di, "inc-value")
	case fix && tc == classUint:
		h.Assert(ru == tu+du, "inc-value")
	case code == 0xd0:
		h.Assert(ri == int64(int8(ti+di)), "inc-value")
	case code == 0xd1:
		h.Assert(ri == int64(int16(ti+di)), "inc-value")
	case code == 0xd2:
		h.Assert(ri == int64(int32(ti+di)), "inc-value")
	case code == 0xd3:
		h.Assert(ri == ti+di, "inc-value")
	case code == 0xcc:
		h.Assert(ru == uint64(uint8(tu+du)), "inc-value")
	case code == 0xcd:
		h.Assert(ru == uint64(uint16(tu+du)), "inc-value")
	case code == 0xce:
		h.Assert(ru == uint64(uint32(tu+du)), "inc-value")
	case code == 0xcf:
		h.Assert(ru == tu+du, "inc-value")
	case code == 0xca:
		s := float64(float32(tf + df))
		h.Assert(rf == s || s != s && rf != rf, "inc-value")
	case code == 0xcb:
		s := tf + df
		h.Assert(rf == s || s != s && rf != rf, "inc-value")
	}
	h.Cover("end")
}

// VerifC13WellFormed: every op kind that splices op.Value, with ARBITRARY value bytes (length
// 0..maxValue, not assumed to be msgpack): a reported success always re-parses; a failure
// returns no result. The body is {"a": 1, "l": [2]}.
func VerifC13WellFormed(h *verifrt.H) {
	body := []byte{0x82, 0xa1, 'a', 0x01, 0xa1, 'l', 0x91, 0x02}
	val := h.Bytes("value", h.Len("valueLen", 0, h.Param("maxValue", 3)))
	// INC appears three times: on an existing number, on a missing final field and on a missing
	// intermediate chain (the last two create the field from the delta's own bytes)
	kinds := []OpKind{OpSet, OpSet, OpAppend, OpPrepend, OpMerge, OpRemoveVal, OpInc, OpSet, OpInc, OpInc}
	paths := []string{"a", "n", "l", "l", "", "l", "a", "l[0]", "n", "m.x"}
	k := h.Choose("op", len(kinds))
	out, err := Apply(body, []Op{{Kind: kinds[k], Path: paths[k], Value: val}})
	if err != nil {
		h.Assert(out == nil, "failure-returns-no-result")
	} else {
		_, perr := Parse(out)
		h.Assert(perr == nil, "success-leaves-well-formed-body")
		h.ClearKnown()
	}
	h.Cover("end")
}

// ---------- reference document model (written from the documented op semantics) ----------

type c13node struct {
	kind int // 0 leaf, 1 map, 2 array
	leaf []byte
	keys []string
	kids []*c13node
}

type c13seg struct {
	kind  int // 0 field, 1 index, 2 append marker
	field string
	idx   int
}

type c13op struct {
	kind OpKind
	path string
	segs []c13seg
	val  int // 0 none, 1 leaf value, 2 map patch
}

func c13f(n string) c13seg { return c13seg{kind: 0, field: n} }
func c13i(i int) c13seg    { return c13seg{kind: 1, idx: i} }

var c13ops = []c13op{
	{OpSet, "a", []c13seg{c13f("a")}, 1},
	{OpSet, "n", []c13seg{c13f("n")}, 1},
	{OpSet, "l[0]", []c13seg{c13f("l"), c13i(0)}, 1},
	{OpSet, "l[-1]", []c13seg{c13f("l"), c13i(-1)}, 1},
	{OpSet, "m.k", []c13seg{c13f("m"), c13f("k")}, 1},
	{OpSet, "m.j", []c13seg{c13f("m"), c13f("j")}, 1},
	{OpSet, "p.q", []c13seg{c13f("p"), c13f("q")}, 1},
	{OpSet, "l[5]", []c13seg{c13f("l"), c13i(5)}, 1},
	{OpSet, "a.x", []c13seg{c13f("a"), c13f("x")}, 1},
	{OpDelete, "a", []c13seg{c13f("a")}, 0},
	{OpDelete, "n", []c13seg{c13f("n")}, 0},
	{OpDelete, "l[1]", []c13seg{c13f("l"), c13i(1)}, 0},
	{OpDelete, "m.k", []c13seg{c13f("m"), c13f("k")}, 0},
	{OpAppend, "l[]", []c13seg{c13f("l"), {kind: 2}}, 1},
	{OpPrepend, "l[]", []c13seg{c13f("l"), {kind: 2}}, 1},
	{OpAppend, "q[]", []c13seg{c13f("q"), {kind: 2}}, 1},
	{OpAppend, "a[]", []c13seg{c13f("a"), {kind: 2}}, 1},
	{OpRemoveAt, "l[0]", []c13seg{c13f("l"), c13i(0)}, 0},
	{OpRemoveAt, "l[5]", []c13seg{c13f("l"), c13i(5)}, 0},
	{OpRemoveVal, "l", []c13seg{c13f("l")}, 1},
	{OpRemoveVal, "n", []c13seg{c13f("n")}, 1},
	{OpMerge, "m", []c13seg{c13f("m")}, 2},
	{OpMerge, "r", []c13seg{c13f("r")}, 2},
	{OpMerge, "a", []c13seg{c13f("a")}, 2},
}

func c13find(m *c13node, k string) int {
	for i, x := range m.keys {
		if x == k {
			return i
		}
	}
	return -1
}

// c13resolve mirrors the documented contract of Path.Resolve.
func c13resolve(root *c13node, segs []c13seg) (parent, target *c13node, tidx, missingAt int, bad bool) {
	cur := root
	for i, s := range segs {
		final := i == len(segs)-1
		switch s.kind {
		case 0:
			if cur.kind != 1 {
				return nil, nil, -1, -1, true
			}
			j := c13find(cur, s.field)
			if j < 0 {
				return cur, nil, -1, i, false
			}
			if final {
				return cur, cur.kids[j], j, -1, false
			}
			cur = cur.kids[j]
		case 1:
			if cur.kind != 2 {
				return nil, nil, -1, -1, true
			}
			j := s.idx
			if j < 0 {
				j += len(cur.kids)
			}
			if j < 0 || j >= len(cur.kids) {
				return nil, nil, -1, -1, true
			}
			if final {
				return cur, cur.kids[j], j, -1, false
			}
			cur = cur.kids[j]
		case 2:
			if !final || cur.kind != 2 {
				return nil, nil, -1, -1, true
			}
			return cur, nil, -1, -1, false
		}
	}
	return nil, nil, -1, -1, true
}

func c13leafNode(b []byte) *c13node { return &c13node{kind: 0, leaf: append([]byte{}, b...)} }

// c13chain creates the missing intermediate maps segs[from:to) under parent (all must be fields).
func c13chain(parent *c13node, segs []c13seg, from, to int) (*c13node, bool) {
	for i := from; i < to; i++ {
		if segs[i].kind != 0 {
			return nil, false
		}
		m := &c13node{kind: 1}
		parent.keys = append(parent.keys, segs[i].field)
		parent.kids = append(parent.kids, m)
		parent = m
	}
	return parent, true
}

func c13remove(n *c13node, i int) {
	if n.kind == 1 {
		n.keys = append(n.keys[:i:i], n.keys[i+1:]...)
	}
	n.kids = append(n.kids[:i:i], n.kids[i+1:]...)
}

// c13apply: reference semantics of one op; false = the op fails (the whole patch fails).
func c13apply(root *c13node, op c13op, val []byte, pk []string, pv [][]byte) bool {
	segs := op.segs
	last := segs[len(segs)-1]
	parent, target, tidx, missing, bad := c13resolve(root, segs)
	if bad {
		return false
	}
	switch op.kind {
	case OpSet:
		if target != nil {
			*target = *c13leafNode(val)
			return true
		}
		if last.kind != 0 {
			return false
		}
		p, ok := c13chain(parent, segs, missing, len(segs)-1)
		if !ok || p.kind != 1 {
			return false
		}
		p.keys = append(p.keys, last.field)
		p.kids = append(p.kids, c13leafNode(val))
		return true
	case OpDelete:
		if target == nil {
			return last.kind != 2
		}
		c13remove(parent, tidx)
		return true
	case OpAppend, OpPrepend:
		if last.kind != 2 {
			return false
		}
		var arr *c13node
		if missing < 0 {
			arr = parent // existing array
		} else {
			p, ok := c13chain(parent, segs, missing, len(segs)-2)
			if !ok || p.kind != 1 || segs[len(segs)-2].kind != 0 {
				return false
			}
			arr = &c13node{kind: 2}
			p.keys = append(p.keys, segs[len(segs)-2].field)
			p.kids = append(p.kids, arr)
		}
		if op.kind == OpPrepend {
			arr.kids = append([]*c13node{c13leafNode(val)}, arr.kids...)
		} else {
			arr.kids = append(arr.kids, c13leafNode(val))
		}
		return true
	case OpRemoveAt:
		if last.kind != 1 || target == nil {
			return false
		}
		c13remove(parent, tidx)
		return true
	case OpRemoveVal:
		if target == nil {
			return true
		}
		if target.kind != 2 {
			return false
		}
		for i, it := range target.kids {
			if it.kind == 0 && c13same(it.leaf, val) {
				c13remove(target, i)
				return true
			}
		}
		return true
	case OpMerge:
		m := target
		if m == nil {
			if last.kind != 0 {
				return false
			}
			p, ok := c13chain(parent, segs, missing, len(segs)-1)
			if !ok || p.kind != 1 {
				return false
			}
			m = &c13node{kind: 1}
			p.keys = append(p.keys, last.field)
			p.kids = append(p.kids, m)
		} else if m.kind != 1 {
			return false
		}
		for i, k := range pk {
			if j := c13find(m, k); j >= 0 {
				m.kids[j] = c13leafNode(pv[i])
			} else {
				m.keys = append(m.keys, k)
				m.kids = append(m.kids, c13leafNode(pv[i]))
			}
		}
		return true
	}
	return false
}

func c13enc(n *c13node, out []byte) []byte {
	switch n.kind {
	case 0:
		return append(out, n.leaf...)
	case 1:
		out = append(out, 0x80|byte(len(n.kids)))
		for i, k := range n.keys {
			out = append(out, 0xa0|byte(len(k)))
			out = append(out, k...)
			out = c13enc(n.kids[i], out)
		}
		return out
	}
	out = append(out, 0x90|byte(len(n.kids)))
	for _, k := range n.kids {
		out = c13enc(k, out)
	}
	return out
}

func c13fix(h *verifrt.H, name string) []byte {
	b := h.Bytes(name, 1)
	h.Assume(b[0] <= 0x7f)
	return b
}

// VerifC13Ops: sequences of ops (every kind, existing / missing / auto-create / out-of-range /
// type-mismatch paths) with symbolic leaf values and symbolic MERGE keys on the body
// {"a": x, "l": [y, z], "m": {"k": w}}: the result equals the reference document model's
// encoding byte for byte (so untouched values keep their bytes and field order is stable), and
// the patch fails as a whole - returning no result - exactly when the reference says an op fails.
func VerifC13Ops(h *verifrt.H) {
	x, y, z, w := c13fix(h, "x"), c13fix(h, "y"), c13fix(h, "z"), c13fix(h, "w")
	doc := &c13node{kind: 1, keys: []string{"a", "l", "m"}, kids: []*c13node{
		c13leafNode(x),
		{kind: 2, kids: []*c13node{c13leafNode(y), c13leafNode(z)}},
		{kind: 1, keys: []string{"k"}, kids: []*c13node{c13leafNode(w)}},
	}}
	body := c13enc(doc, nil)
	_, perr := Parse(body)
	h.Assert(perr == nil, "ops-body-parses")
	nOps := h.Param("nOps", 2)
	var ops []Op
	okRef := true
	for i := 0; i < nOps; i++ {
		o := c13ops[h.Choose("op", len(c13ops))]
		var val []byte
		var pk []string
		var pv [][]byte
		switch o.val {
		case 1:
			val = c13fix(h, "v")
		case 2:
			nf := h.Len("patchFields", 0, 2)
			val = []byte{0x80 | byte(nf)}
			for j := 0; j < nf; j++ {
				kb := h.Bytes("pk", 1)
				h.Assume(kb[0] >= 'j' && kb[0] <= 'l')
				v := c13fix(h, "pv")
				pk = append(pk, string(kb))
				pv = append(pv, v)
				val = append(val, 0xa1, kb[0], v[0])
			}
		}
		ops = append(ops, Op{Kind: o.kind, Path: o.path, Value: val})
		if okRef {
			okRef = c13apply(doc, o, val, pk, pv)
		}
	}
	out, err := Apply(body, ops)
	if okRef {
		h.Assert(err == nil, "ops-succeed-when-the-model-succeeds")
		h.Assert(err != nil || c13same(out, c13enc(doc, nil)), "ops-result-equals-reference-document")
	} else {
		h.Assert(err != nil && out == nil, "ops-fail-as-a-whole-when-the-model-fails")
	}
	h.Cover("end")
}
