//go:build verif

package guard

import (
	"github.com/hydraide/hydraide/app/verifrt"
)

func c15mk(h *verifrt.H, n int, L int64) *guard {
	g := New().(*guard)
	for i := 0; i < n; i++ {
		g.waitForUnlock = append(g.waitForUnlock, L-int64(n)+1+int64(i))
	}
	g.largestGuardID = L
	return g
}

func c15same(a, b []int64) bool {
	if len(a) != len(b) {
		return false
	}
	for i := range a {
		if a[i] != b[i] {
			return false
		}
	}
	return true
}

// VerifC15Step is the one-step inductive obligation: from ANY guard state of the shape every
// history produces (queue = the consecutive ids [L-len+1 .. L], counter = L, all symbolic), one
// operation with arbitrary arguments keeps the shape, keeps FIFO order, hands out only fresh
// ids (the id counter never goes backwards) and a release of an id that is not the head is a no-op.
func VerifC15Step(h *verifrt.H) {
	n := h.Len("qlen", 0, h.Param("maxQueue", 4))
	L := h.Int64("L")
	h.Assume(L >= int64(n) && L < 1<<62)
	g := c15mk(h, n, L)
	pre := append([]int64(nil), g.waitForUnlock...)
	switch h.Choose("op", 3) {
	case 0: // non-waiting acquire
		id := g.StartTreasureGuard(false)
		if n == 0 {
			h.Assert(int64(id) == L+1, "try-acquire-fresh-id")
			h.Assert(c15same(g.waitForUnlock, []int64{L + 1}), "try-acquire-enqueued")
		} else {
			h.Assert(id == 0, "try-acquire-busy-returns-0")
			h.Assert(c15same(g.waitForUnlock, pre), "try-acquire-busy-no-effect")
		}
	case 1: // waiting acquire on a free guard (parking on a busy guard: VerifC15Sched)
		if n != 0 {
			return
		}
		id := g.StartTreasureGuard(true)
		h.Assert(int64(id) == L+1, "acquire-fresh-id")
		h.Assert(c15same(g.waitForUnlock, []int64{L + 1}), "acquire-enqueued")
	case 2: // release with an arbitrary id
		rid := h.Int64("rid")
		g.ReleaseTreasureGuard(ID(rid))
		if n > 0 && rid == pre[0] {
			h.Assert(c15same(g.waitForUnlock, pre[1:]), "release-head-pops-exactly-head")
		} else {
			h.Assert(c15same(g.waitForUnlock, pre), "release-foreign-id-no-effect")
		}
	}
	// ids are never reused: the counter only grows
	h.Assert(g.largestGuardID >= L, "guard-id-monotonic")
	h.ClearKnown()
	h.Cover("end")
}

// VerifC15Sched: k threads acquire (waiting), enter a critical section, release; one of them
// releases its (now stale) id a second time. Every interleaving within the preemption bound:
// at most one holder, nobody is blocked forever, a stale release never frees the current holder.
func VerifC15Sched(h *verifrt.H) {
	g := New()
	k := h.Param("threads", 3)
	holders := 0
	entered := 0
	for i := 0; i < k; i++ {
		dup := i == 0
		h.Go("op", func() {
			id := g.StartTreasureGuard(true)
			holders++
			h.Assert(holders == 1, "exclusive-holder")
			h.ClearKnown()
			entered++
			h.Yield()
			holders--
			g.ReleaseTreasureGuard(id)
			if dup {
				h.Yield()
				g.ReleaseTreasureGuard(id) // stale id: must have no effect on the current holder
			}
		})
	}
	h.AtQuiescence(func() {
		h.Assert(entered == k, "all-acquired")
		h.Cover("end")
	})
}

// VerifC15Try: non-waiting acquires race with each other and with a waiting acquire on a fresh
// guard (every thread's mode is a choice; at least one is non-waiting): a non-waiting acquire
// that returns a non-zero id IS the holder - at most one holder at a time - and after every
// holder has released, the guard is free again (a fresh non-waiting acquire succeeds).
func VerifC15Try(h *verifrt.H) {
	g := New()
	k := h.Param("threads", 2)
	holders := 0
	for i := 0; i < k; i++ {
		waiting := i > 0 && h.Choose("waitingMode", 2) == 1
		h.Go("op", func() {
			id := g.StartTreasureGuard(waiting)
			if id == 0 {
				h.Assert(!waiting, "waiting-acquire-returns-an-id")
				return // busy: a non-waiting caller walks away
			}
			holders++
			h.Assert(holders == 1, "exclusive-holder")
			h.Yield()
			holders--
			g.ReleaseTreasureGuard(id)
		})
	}
	h.AtQuiescence(func() {
		id := g.StartTreasureGuard(false)
		h.Assert(id != 0, "guard-free-after-all-released")
		h.Cover("end")
	})
}

