//go:build verif

package treasure

import (
	"time"

	"github.com/hydraide/hydraide/app/core/hydra/swamp/treasure/guard"
	"github.com/hydraide/hydraide/app/verifrt"
)

func c05beq(a, b []byte) bool {
	if len(a) != len(b) {
		return false
	}
	for i := range a {
		if a[i] != b[i] {
			return false
		}
	}
	return true
}

// VerifC05Reload: a record of every content type with a symbolic value (zero-like values
// included) and symbolic metadata is encoded the way the chronicler stores it and decoded into a
// fresh record the way a reload does; existence of content, content type, value and
// created/updated/expiry metadata must be identical.
func VerifC05Reload(h *verifrt.H) {
	t := New(nil).(*treasure)
	g := t.StartTreasureGuard(true, guard.BodyAuthID)
	t.BodySetKey(g, "k")
	ct := ContentType(1 + h.Choose("contentType", 14))
	var u64 uint64
	var i64 int64
	var f64 float64
	var str string
	var bs []byte
	var bl bool
	zeroLike := false
	switch ct {
	case ContentTypeUint8:
		v := h.Uint8("value")
		t.SetContentUint8(g, v)
		u64, zeroLike = uint64(v), v == 0
	case ContentTypeUint16:
		v := h.Uint16("value")
		t.SetContentUint16(g, v)
		u64, zeroLike = uint64(v), v == 0
	case ContentTypeUint32:
		v := h.Uint32("value")
		t.SetContentUint32(g, v)
		u64, zeroLike = uint64(v), v == 0
	case ContentTypeUint64:
		v := h.Uint64("value")
		t.SetContentUint64(g, v)
		u64, zeroLike = v, v == 0
	case ContentTypeInt8:
		v := h.Int8("value")
		t.SetContentInt8(g, v)
		i64, zeroLike = int64(v), v == 0
	case ContentTypeInt16:
		v := h.Int16("value")
		t.SetContentInt16(g, v)
		i64, zeroLike = int64(v), v == 0
	case ContentTypeInt32:
		v := h.Int32("value")
		t.SetContentInt32(g, v)
		i64, zeroLike = int64(v), v == 0
	case ContentTypeInt64:
		v := h.Int64("value")
		t.SetContentInt64(g, v)
		i64, zeroLike = v, v == 0
	case ContentTypeFloat32:
		v := h.Float32("value")
		h.Assume(v == v)
		t.SetContentFloat32(g, v)
		f64, zeroLike = float64(v), v == 0
	case ContentTypeFloat64:
		v := h.Float64("value")
		h.Assume(v == v)
		t.SetContentFloat64(g, v)
		f64, zeroLike = v, v == 0
	case ContentTypeString:
		str = h.String("value", h.Len("valueLen", 0, 2))
		t.SetContentString(g, str)
		zeroLike = len(str) == 0
	case ContentTypeBoolean:
		bl = h.Bool("value")
		t.SetContentBool(g, bl)
		zeroLike = !bl
	case ContentTypeByteArray:
		bs = h.Bytes("value", h.Len("valueLen", 0, 2))
		t.SetContentByteArray(g, bs)
		zeroLike = len(bs) == 0
	case ContentTypeUint32Slice:
		n := h.Len("valueLen", 0, 2)
		vals := make([]uint32, n)
		for i := range vals {
			vals[i] = h.Uint32("elem")
		}
		h.Assume(n < 2 || vals[0] != vals[1])
		if err := t.Uint32SlicePush(vals); err != nil {
			return
		}
		zeroLike = n == 0
	}
	created, modified, expiry := h.Int64("createdAt"), h.Int64("modifiedAt"), h.Int64("expiry")
	if created != 0 {
		t.SetCreatedAt(g, time.Unix(0, created).UTC())
	}
	if modified != 0 {
		t.SetModifiedAt(g, time.Unix(0, modified).UTC())
	}
	if expiry != 0 {
		t.SetExpirationTime(g, time.Unix(0, expiry).UTC())
	}
	by := h.String("createdBy", h.Len("byLen", 0, 1))
	t.SetCreatedBy(g, by)
	h.Assert(t.GetContentType() == ct, "content-type-before-close")
	blob, err := t.ConvertToByte(g)
	h.Assert(err == nil, "encode-ok")
	t.ReleaseTreasureGuard(g)

	r := New(nil).(*treasure)
	rg := r.StartTreasureGuard(true, guard.BodyAuthID)
	h.Assert(r.LoadFromByte(rg, blob, "f.hyd") == nil, "decode-ok")
	r.ReleaseTreasureGuard(rg)

	h.Assert(r.GetKey() == "k", "reload-key")
	h.Assert(r.GetCreatedAt() == created && r.GetModifiedAt() == modified && r.GetExpirationTime() == expiry && r.GetCreatedBy() == by, "reload-metadata")
	_ = zeroLike // zero-like values are part of the claim (repaired by 337c6d1)
	h.Assert(r.GetContentType() == ct, "reload-content-type")
	if r.GetContentType() == ct {
		switch ct {
		case ContentTypeUint8:
			v, e := r.GetContentUint8()
			h.Assert(e == nil && uint64(v) == u64, "reload-content-value")
		case ContentTypeUint16:
			v, e := r.GetContentUint16()
			h.Assert(e == nil && uint64(v) == u64, "reload-content-value")
		case ContentTypeUint32:
			v, e := r.GetContentUint32()
			h.Assert(e == nil && uint64(v) == u64, "reload-content-value")
		case ContentTypeUint64:
			v, e := r.GetContentUint64()
			h.Assert(e == nil && v == u64, "reload-content-value")
		case ContentTypeInt8:
			v, e := r.GetContentInt8()
			h.Assert(e == nil && int64(v) == i64, "reload-content-value")
		case ContentTypeInt16:
			v, e := r.GetContentInt16()
			h.Assert(e == nil && int64(v) == i64, "reload-content-value")
		case ContentTypeInt32:
			v, e := r.GetContentInt32()
			h.Assert(e == nil && int64(v) == i64, "reload-content-value")
		case ContentTypeInt64:
			v, e := r.GetContentInt64()
			h.Assert(e == nil && v == i64, "reload-content-value")
		case ContentTypeFloat32:
			v, e := r.GetContentFloat32()
			h.Assert(e == nil && float64(v) == f64, "reload-content-value")
		case ContentTypeFloat64:
			v, e := r.GetContentFloat64()
			h.Assert(e == nil && v == f64, "reload-content-value")
		case ContentTypeString:
			v, e := r.GetContentString()
			h.Assert(e == nil && v == str, "reload-content-value")
		case ContentTypeBoolean:
			v, e := r.GetContentBool()
			h.Assert(e == nil && v == bl, "reload-content-value")
		case ContentTypeByteArray:
			v, e := r.GetContentByteArray()
			h.Assert(e == nil && c05beq(v, bs), "reload-content-value")
		case ContentTypeUint32Slice:
			n1, e1 := r.Uint32SliceSize()
			n0, e0 := t.Uint32SliceSize()
			h.Assert(e0 == nil && e1 == nil && n0 == n1, "reload-content-value")
		}
	}
	h.ClearKnown()
	h.Cover("end")
}
