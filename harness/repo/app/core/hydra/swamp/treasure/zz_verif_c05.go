//go:build verif

package treasure

import (
	"time"

	"github.com/hydraide/hydraide/app/core/hydra/swamp/treasure/guard"
	"github.com/hydraide/hydraide/app/verifrt"
)

func c05beq(a, b []byte) bool {
	if len(a) != len(b) {
		return false
	}
	for i := range a {
		if a[i] != b[i] {
			return false
		}
	}
	return true
}

// VerifC05Reload: a record of every content type with a symbolic value (zero-like values
// included) and symbolic metadata is encoded the way the chronicler stores it and decoded into a
// fresh record the way a reload does; existence of content, content type, value and
// created/updated/expiry metadata must be identical.
func VerifC05Reload(h *verifrt.H) {
	t := New(nil).(*treasure)
	g := t.StartTreasureGuard(true, guard.BodyAuthID)
	t.BodySetKey(g, "k")
	ct := ContentType(1 + h.Choose("contentType", 14))
	var u64 uint64
	var i64 int64
	var f64 float64
	var str string
	var bs []byte
	var bl bool
	zeroLike := false
	switch ct {
	case ContentTypeUint8:
		v := h.Uint8("value")
		t.SetContentUint8(g, v)
		u64, zeroLike = uint64(v), v == 0
	case ContentTypeUint16:
		v := h.Uint16("value")
		t.SetContentUint16(g, v)
		u64, zeroLike = uint64(v), v == 0
	case ContentTypeUint32:
		v := h.Uint32("value")
		t.SetContentUint32(g, v)
		u64, zeroLike = uint64(v), v == 0
	case ContentTypeUint64:
		v := h.Uint64("value")
		t.SetContentUint64(g, v)
		u64, zeroLike = v, v == 0
	case ContentTypeInt8:
		v := h.Int8("value")
		t.SetContentInt8(g, v)
		i64, zeroLike = int64(v), v == 0
	case ContentTypeInt16:
		v := h.Int16("value")
		t.SetContentInt16(g, v)
		i64, zeroLike = int64(v), v == 0
	case ContentTypeInt32:
		v := h.Int32("value")
		t.SetContentInt32(g, v)
		i64, zeroLike = int64(v), v == 0
	case ContentTypeInt64:
		v := h.Int64("value")
		t.SetContentInt64(g, v)
		i64, zeroLike = v, v == 0
	case ContentTypeFloat32:
		v := h.Float32("value")
		h.Assume(v == v)
		t.SetContentFloat32(g, v)
		f64, zeroLike = float64(v), v == 0
	case ContentTypeFloat64:
		v := h.Float64("value")
		h.Assume(v == v)
		t.SetContentFloat64(g, v)
		f64, zeroLike = v, v == 0
	case ContentTypeString:
		str = h.String("value", h.Len("valueLen", 0, 2))
		t.SetContentString(g, str)
		zeroLike = len(str) == 0
	case ContentTypeBoolean:
		bl = h.Bool("value")
		t.SetContentBool(g, bl)
		zeroLike = !bl
	case ContentTypeByteArray:
		bs = h.Bytes("value", h.Len("valueLen", 0, 2))
		t.SetContentByteArray(g, bs)
		zeroLike = len(bs) == 0
	case ContentTypeUint32Slice:
		n := h.Len("valueLen", 0, 2)
		vals := make([]uint32, n)
		for i := range vals {
			vals[i] = h.Uint32("elem")
		}
		h.Assume(n < 2 || vals[0] != vals[1])
		if err := t.Uint32SlicePush(vals); err != nil {
			return
		}
		zeroLike = n == 0
	}
	created, modified, expiry := h.Int64("createdAt"), h.Int64("modifiedAt"), h.Int64("expiry")
	if created != 0 {
		t.SetCreatedAt(g, time.Unix(0, created).UTC())
	}
	if modified != 0 {
		t.SetModifiedAt(g, time.Unix(0, modified).UTC())
	}
	if expiry != 0 {
		t.SetExpirationTime(g, time.Unix(0, expiry).UTC())
	}
	by := h.String("createdBy", h.Len("byLen", 0, 1))
	t.SetCreatedBy(g, by)
	h.Assert(t.GetContentType() == ct, "content-type-before-close")
	blob, err := t.ConvertToByte(g)
	h.Assert(err == nil, "encode-ok")
	t.ReleaseTreasureGuard(g)

	r := New(nil).(*treasure)
	rg := r.StartTreasureGuard(true, guard.BodyAuthID)
	h.Assert(r.LoadFromByte(rg, blob, "f.hyd") == nil, "decode-ok")
	r.ReleaseTreasureGuard(rg)

	h.Assert(r.GetKey() == "k", "reload-key")
	h.Assert(r.GetCreatedAt() == created && r.GetModifiedAt() == modified && r.GetExpirationTime() == expiry && r.GetCreatedBy() == by, "reload-metadata")
	_ = zeroLike // zero-like values are part of the claim (repaired by 337c6d1)
	h.Assert(r.GetContentType() == ct, "reload-content-type")
	if r.GetContentType() == ct {
		switch ct {
		case ContentTypeUint8:
			v, e := r.GetContentUint8()
			h.Assert(e == nil && uint64(v) == u64, "reload-content-value")
		case ContentTypeUint16:
			v, e := r.GetContentUint16()
			h.Assert(e == nil && uint64(v) == u64, "reload-content-value")
		case ContentTypeUint32:
			v, e := r.GetContentUint32()
			h.Assert(e == nil && uint64(v) == u64, "reload-content-value")
		case ContentTypeUint64:
			v, e := r.GetContentUint64()
			h.Assert(e == nil && v == u64, "reload-content-value")
		case ContentTypeInt8:
			v, e := r.GetContentInt8()
			h.Assert(e == nil && int64(v) == i64, "reload-content-value")
		case ContentTypeInt16:
			v, e := r.GetContentInt16()
			h.Assert(e == nil && int64(v) == i64, "reload-content-value")
		case ContentTypeInt32:
			v, e := r.GetContentInt32()
			h.Assert(e == nil && int64(v) == i64, "reload-content-value")
		case ContentTypeInt64:
			v, e := r.GetContentInt64()
			h.Assert(e == nil && v == i64, "reload-content-value")
		case ContentTypeFloat32:
			v, e := r.GetContentFloat32()
			h.Assert(e == nil && float64(v) == f64, "reload-content-value")
		case ContentTypeFloat64:
			v, e := r.GetContentFloat64()
			h.Assert(e == nil && v == f64, "reload-content-value")
		case ContentTypeString:
			v, e := r.GetContentString()
			h.Assert(e == nil && v == str, "reload-content-value")
		case ContentTypeBoolean:
			v, e := r.GetContentBool()
			h.Assert(e == nil && v == bl, "reload-content-value")
		case ContentTypeByteArray:
			v, e := r.GetContentByteArray()
			h.Assert(e == nil && c05beq(v, bs), "reload-content-value")
		case ContentTypeUint32Slice:
			n1, e1 := r.Uint32SliceSize()
			n0, e0 := t.Uint32SliceSize()
			h.Assert(e0 == nil && e1 == nil && n0 == n1, "reload-content-value")
		}
	}
	h.ClearKnown()
	h.Cover("end")
}

// VerifC05Resave: a record is stored (ConvertToByte, as a write-interval tick does while the
// swamp stays open), then changed in place - a new value of the same type, or values pushed to a
// uint32 slice -, stored again, and only the second image is loaded into a fresh record. Storing
// must not change the live record (type and value read back the same right after the first
// store), and the reloaded record equals the live record at the second store. Zero-like first
// and second values are included (0, "", false, empty bytes, empty slice).
func VerifC05Resave(h *verifrt.H) {
	t := New(nil).(*treasure)
	g := t.StartTreasureGuard(true, guard.BodyAuthID)
	t.BodySetKey(g, "k")
	kind := h.Choose("contentKind", 5)
	var i1, i2 int64
	var s1, s2 string
	var b1, b2 bool
	var y1, y2 []byte
	var first, second []uint32
	switch kind {
	case 0:
		i1, i2 = h.Int64("first"), h.Int64("second")
		t.SetContentInt64(g, i1)
	case 1:
		s1, s2 = h.String("first", h.Len("firstLen", 0, 1)), h.String("second", h.Len("secondLen", 0, 1))
		t.SetContentString(g, s1)
	case 2:
		b1, b2 = h.Bool("first"), h.Bool("second")
		t.SetContentBool(g, b1)
	case 3:
		y1, y2 = h.Bytes("first", h.Len("firstLen", 0, 1)), h.Bytes("second", h.Len("secondLen", 0, 1))
		t.SetContentByteArray(g, y1)
	case 4:
		first = make([]uint32, h.Len("firstLen", 0, 1))
		for i := range first {
			first[i] = h.Uint32("elem")
		}
		second = make([]uint32, h.Len("secondLen", 0, 2))
		for i := range second {
			second[i] = h.Uint32("elem")
		}
		h.Assert(t.Uint32SlicePush(first) == nil, "push-ok")
	}
	ct := t.GetContentType()
	_, err := t.ConvertToByte(g)
	h.Assert(err == nil, "encode-ok")
	h.Assert(t.GetContentType() == ct, "storing-does-not-change-the-live-record")
	switch kind {
	case 0:
		v, e := t.GetContentInt64()
		h.Assert(e == nil && v == i1, "storing-does-not-change-the-live-record")
		t.SetContentInt64(g, i2)
	case 1:
		v, e := t.GetContentString()
		h.Assert(e == nil && v == s1, "storing-does-not-change-the-live-record")
		t.SetContentString(g, s2)
	case 2:
		v, e := t.GetContentBool()
		h.Assert(e == nil && v == b1, "storing-does-not-change-the-live-record")
		t.SetContentBool(g, b2)
	case 3:
		v, e := t.GetContentByteArray()
		h.Assert(e == nil && c05beq(v, y1), "storing-does-not-change-the-live-record")
		t.SetContentByteArray(g, y2)
	case 4:
		n, e := t.Uint32SliceSize()
		h.Assert(e == nil && n == len(first), "storing-does-not-change-the-live-record")
		h.Assert(t.Uint32SlicePush(second) == nil, "push-ok")
	}
	ct2 := t.GetContentType()
	blob, err := t.ConvertToByte(g)
	h.Assert(err == nil, "encode-ok")
	t.ReleaseTreasureGuard(g)

	r := New(nil).(*treasure)
	rg := r.StartTreasureGuard(true, guard.BodyAuthID)
	h.Assert(r.LoadFromByte(rg, blob, "f.hyd") == nil, "decode-ok")
	r.ReleaseTreasureGuard(rg)
	h.Assert(r.GetContentType() == ct2, "reload-content-type-after-second-store")
	switch kind {
	case 0:
		v, e := r.GetContentInt64()
		h.Assert(e == nil && v == i2, "reload-value-of-the-second-store")
	case 1:
		v, e := r.GetContentString()
		h.Assert(e == nil && v == s2, "reload-value-of-the-second-store")
	case 2:
		v, e := r.GetContentBool()
		h.Assert(e == nil && v == b2, "reload-value-of-the-second-store")
	case 3:
		v, e := r.GetContentByteArray()
		h.Assert(e == nil && c05beq(v, y2), "reload-value-of-the-second-store")
	case 4:
		live, e0 := t.Uint32SliceGetAll()
		got, e1 := r.Uint32SliceGetAll()
		h.Assert(e0 == nil && e1 == nil && len(live) == len(got), "reload-value-of-the-second-store")
		if len(live) == len(got) {
			for i := range live {
				h.Assert(live[i] == got[i], "reload-value-of-the-second-store")
			}
		}
		// every pushed value is in the reloaded slice
		for _, w := range append(append([]uint32{}, first...), second...) {
			found := false
			for _, x := range got {
				if x == w {
					found = true
				}
			}
			h.Assert(found, "reload-value-of-the-second-store")
		}
	}
	h.ClearKnown()
	h.Cover("end")
}
