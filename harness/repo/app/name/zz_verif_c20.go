//go:build verif

package name

import (
	"fmt"
	"strings"

	"github.com/cespare/xxhash/v2"
	"github.com/hydraide/hydraide/app/verifrt"
	sdkname "github.com/hydraide/hydraide/sdk/go/hydraidego/v3/name"
)

// VerifC20Island: the island number is within 1..N, is a pure function of (name, N), and the
// SDK computes the same number as the server. Names are symbolic byte strings (hash = UF),
// N is a symbolic uint16 (server API width), a second query uses an independent symbolic N2.
func VerifC20Island(h *verifrt.H) {
	maxPart := h.Param("partLen", 2)
	s := h.String("sanctuary", h.Len("sLen", 1, maxPart))
	r := h.String("realm", h.Len("rLen", 1, maxPart))
	w := h.String("swamp", h.Len("wLen", 1, maxPart))
	n := h.Uint16("N")
	h.Assume(n >= 1) // "supported folder configuration": at least one island
	nm := New().Sanctuary(s).Realm(r).Swamp(w)
	got := nm.GetFolderNumber(n)
	h.Assert(got >= 1 && got <= n, "island-in-range")
	// pure function of the name: a fresh object with equal parts agrees
	got2 := New().Sanctuary(s).Realm(r).Swamp(w).GetFolderNumber(n)
	h.Assert(got2 == got, "island-deterministic")
	// SDK agrees with the server for the same N
	sdk := sdkname.New().Sanctuary(s).Realm(r).Swamp(w).GetIslandID(uint64(n))
	h.Assert(sdk == uint64(got), "island-sdk-equals-server")
	// pure function of (name, N): asking the same object again with another N answers for that N
	n2 := h.Uint16("N2")
	h.Assume(n2 >= 1)
	again := nm.GetFolderNumber(n2)
	fresh := New().Sanctuary(s).Realm(r).Swamp(w).GetFolderNumber(n2)
	h.Assert(again == fresh, "island-second-query-pure")
	h.ClearKnown()
	h.Cover("end")
}

// findNameWithDigits searches (natively) for a swamp part whose path hash has the wanted
// number of hex digits, so that the UF-abstracted hash class chosen by the solver is
// reproduced with the real xxhash.
func findNameWithDigits(prefix string, digits int) string {
	for i := 0; i < 1<<26; i++ {
		c := fmt.Sprintf("w%d", i)
		if len(fmt.Sprintf("%x", xxhash.Sum64String(prefix+c))) == digits {
			return c
		}
	}
	panic("no name with the requested hash width found")
}

// VerifC20Path: computing the on-disk location never fails and is deterministic, for every
// name, every depth in the configured range and every maxFoldersPerLevel.
func VerifC20Path(h *verifrt.H) {
	depth := h.Len("depth", 0, h.Param("maxDepth", 4))
	maxFolders := h.IntRange("maxFoldersPerLevel", 1, 1<<20)
	digits := h.Len("hashDigits", 13, 16) // hashes below 2^48 are outside the claim
	var w string
	if h.Native() {
		w = findNameWithDigits("s/r/", digits)
	} else {
		w = h.String("swamp", 2)
		hv := xxhash.Sum64String("s/r/" + w)
		if digits < 16 {
			h.Assume(hv < 1<<(4*uint(digits)))
		}
		h.Assume(hv >= 1<<(4*uint(digits-1)))
	}
	nm := New().Sanctuary("s").Realm("r").Swamp(w)
	p1 := nm.GetFullHashPath("/data", 7, depth, maxFolders)
	p2 := New().Sanctuary("s").Realm("r").Swamp(w).GetFullHashPath("/data", 7, depth, maxFolders)
	h.ClearKnown()
	h.Assert(p1 == p2, "path-deterministic")
	h.Assert(strings.HasPrefix(p1, "/data/7"), "path-under-island")
	h.Cover("end")
}

// VerifC20Inject: two different (sanctuary, realm, swamp) triples never resolve to the same
// canonical name, and Load(Get()) restores the triple. Parts are symbolic bytes so "/" is reachable.
func VerifC20Inject(h *verifrt.H) { c20inject(h, h.Param("minPart", 1), h.Param("partLen", 2)) }

// VerifC20InjectEmpty: the same with empty parts allowed (shorter parts keep it cheap).
func VerifC20InjectEmpty(h *verifrt.H) { c20inject(h, 0, h.Param("partLen", 1)) }

func c20inject(h *verifrt.H, minPart, maxPart int) {
	s1 := h.String("s1", h.Len("s1Len", minPart, maxPart))
	r1 := h.String("r1", h.Len("r1Len", minPart, maxPart))
	w1 := h.String("w1", h.Len("w1Len", minPart, maxPart))
	s2 := h.String("s2", h.Len("s2Len", minPart, maxPart))
	r2 := h.String("r2", h.Len("r2Len", minPart, maxPart))
	w2 := h.String("w2", h.Len("w2Len", minPart, maxPart))
	a := New().Sanctuary(s1).Realm(r1).Swamp(w1)
	b := New().Sanctuary(s2).Realm(r2).Swamp(w2)
	differ := s1 != s2 || r1 != r2 || w1 != w2
	slash := strings.Contains(s1+r1+w1+s2+r2+w2, "/")
	h.Known("C20-slash-in-part-aliases-names", "inject", slash)
	h.Assert(!differ || a.Get() != b.Get(), "inject-distinct-names-distinct-paths")
	l := Load(a.Get())
	h.Assert(l.GetSanctuaryID() == s1 && l.GetRealmName() == r1 && l.GetSwampName() == w1, "inject-load-roundtrip")
	h.ClearKnown()
	h.Cover("end")
}

func c20join(parts ...string) string { return strings.Join(parts, "/") }

// VerifC20Location: two names that differ (parts of 0..partLen symbolic bytes, empty parts
// included, no '/' inside a part) never resolve to the same storage folder on the same island:
// the real GetFullHashPath of both, with the hash an uninterpreted function assumed free of
// collisions (so two folders are equal exactly when the hashed inputs are).
func VerifC20Location(h *verifrt.H) {
	h.Stub("path/filepath.Join", c20join) // the joined parts are a constant root, a number and hex digits
	maxPart := h.Param("partLen", 1)
	part := func(n string) string {
		p := h.String(n, h.Len(n+"Len", 0, maxPart))
		h.Assume(!strings.Contains(p, "/"))
		return p
	}
	s1, r1, w1 := part("s1"), part("r1"), part("w1")
	s2, r2, w2 := part("s2"), part("r2"), part("w2")
	h.Assume(s1 != s2 || r1 != r2 || w1 != w2)
	a := New().Sanctuary(s1).Realm(r1).Swamp(w1)
	b := New().Sanctuary(s2).Realm(r2).Swamp(w2)
	pa := a.GetFullHashPath("/d", 1, 2, 16)
	pb := b.GetFullHashPath("/d", 1, 2, 16)
	h.Assert(pa != pb, "distinct-names-distinct-storage-folders")
	h.Cover("end")
}

