//go:build verif

package gateway

import (
	"github.com/hydraide/hydraide/app/core/hydra/swamp"
	"github.com/hydraide/hydraide/app/core/hydra/swamp/bucket/valuecanon"
	"github.com/hydraide/hydraide/app/core/hydra/swamp/treasure"
	"github.com/hydraide/hydraide/app/verifrt"
)

// c08Rec / c08Swamp: two records with one numeric field each behind the swamp's bucket-lookup
// interface; membership is the canonical equality rule (what package bucket implements and
// VerifC08Bucket checks against the real bucket).
type c08Rec struct {
	treasure.Treasure
	key   string
	field any
	canon valuecanon.Key
}

func (r *c08Rec) GetKey() string { return r.key }

type c08Swamp struct {
	swamp.Swamp
	recs []*c08Rec
}

func (s *c08Swamp) LookupByBucketEqual(fieldPath string, value any) []treasure.Treasure {
	var out []treasure.Treasure
	for _, r := range s.recs {
		if valuecanon.Equal(r.canon, valuecanon.Canonicalize(value)) {
			out = append(out, r)
		}
	}
	return out
}

func (s *c08Swamp) LookupByBucketIn(fieldPath string, values []any) []treasure.Treasure {
	var out []treasure.Treasure
	for _, r := range s.recs {
		for _, v := range values {
			if valuecanon.Equal(r.canon, valuecanon.Canonicalize(v)) {
				out = append(out, r)
				break
			}
		}
	}
	return out
}

func c08Num(h *verifrt.H, name string) any {
	switch h.Choose(name+"Kind", 2+h.Param("floats", 0)) {
	case 0:
		return h.Int64(name)
	case 1:
		return h.Uint64(name)
	}
	f := h.Float64(name)
	h.Assume(f == f)
	return f
}

// VerifC08Union: the candidate set the index route builds for an OR of indexable legs
// (collectBucketCandidates over two hints - EQUAL/EQUAL or EQUAL/IN - with symbolic values of
// kind int64 or uint64 (float64 with the parameter floats=1), so cross-kind equal values such as int64 5 and uint64 5 occur) holds
// exactly the records a full scan would select with the canonical equality rule, each of them
// ONCE: a record streamed twice shifts From/Limit/MaxResults and differs from the scan route.
func VerifC08Union(h *verifrt.H) {
	sw := &c08Swamp{}
	// record fields are int64 (the bucket's treatment of every stored kind is VerifC08Bucket's subject)
	f1, f2 := h.Int64("f1"), h.Int64("f2")
	sw.recs = append(sw.recs, &c08Rec{key: "k1", field: f1, canon: valuecanon.Canonicalize(f1)}, &c08Rec{key: "k2", field: f2, canon: valuecanon.Canonicalize(f2)})
	v1, v2 := c08Num(h, "v1"), c08Num(h, "v2")
	hints := []BucketHint{{FieldPath: "f", Op: HintEqual, Values: []any{v1}}}
	vals := []any{v1, v2}
	if h.Param("inLeg", 0) == 0 || h.Choose("secondLeg", 2) == 0 {
		hints = append(hints, BucketHint{FieldPath: "f", Op: HintEqual, Values: []any{v2}})
	} else {
		v3 := c08Num(h, "v3")
		vals = append(vals, v3)
		hints = append(hints, BucketHint{FieldPath: "f", Op: HintIn, Values: []any{v2, v3}})
	}
	out := collectBucketCandidates(sw, hints)
	for _, r := range sw.recs {
		want := false
		for _, v := range vals {
			if valuecanon.Equal(r.canon, valuecanon.Canonicalize(v)) {
				want = true
			}
		}
		n := 0
		for _, t := range out {
			if t.GetKey() == r.key {
				n++
			}
		}
		if want {
			h.Assert(n >= 1, "union-holds-every-matching-record")
			h.Assert(n <= 1, "union-holds-a-record-once")
		} else {
			h.Assert(n == 0, "union-holds-no-other-record")
		}
	}
	h.Assert(len(out) <= len(sw.recs), "union-no-larger-than-the-swamp")
	h.Cover("end")
}
