//go:build verif

package gateway

import (
	"context"
	"errors"
	"time"

	"github.com/google/uuid"
	"github.com/hydraide/hydraide/app/core/hydra"
	"github.com/hydraide/hydraide/app/core/hydra/lock"
	"github.com/hydraide/hydraide/app/core/hydra/swamp"
	"github.com/hydraide/hydraide/app/core/hydra/swamp/bucket/valuecanon"
	"github.com/hydraide/hydraide/app/core/hydra/swamp/metadata"
	"github.com/hydraide/hydraide/app/core/hydra/swamp/treasure"
	"github.com/hydraide/hydraide/app/core/hydra/swamp/treasure/guard"
	"github.com/hydraide/hydraide/app/core/safeops"
	"github.com/hydraide/hydraide/app/core/zeus"
	"github.com/hydraide/hydraide/app/name"
	"github.com/hydraide/hydraide/app/verifrt"
	hydrapb "github.com/hydraide/hydraide/sdk/go/hydraidego/v3/hydraidepbgo"
)

// gwHydra is a minimal server behind the real Gateway: SummonSwamp hands out REAL in-memory
// swamps (one live instance per name, re-created after the swamp has closed itself), IsExistSwamp
// answers from the live map. Everything the handlers do - treasure, guard, vigil, beacon,
// conversion code - is the real code.
type gwHydra struct {
	hydra.Hydra
	names  []string
	swamps []swamp.Swamp
	lk     lock.Lock
	events []*swamp.Event
}

func (f *gwHydra) find(n name.Name) int {
	for i, x := range f.names {
		if x == n.Get() {
			return i
		}
	}
	return -1
}

func (f *gwHydra) SummonSwamp(ctx context.Context, islandID uint64, n name.Name) (swamp.Swamp, error) {
	if i := f.find(n); i >= 0 {
		return f.swamps[i], nil
	}
	s := swamp.New(n, time.Hour, nil, func(e *swamp.Event) { f.events = append(f.events, e) }, func(*swamp.Info) {}, func(c name.Name) {
		if i := f.find(c); i >= 0 {
			f.names = append(f.names[:i:i], f.names[i+1:]...)
			f.swamps = append(f.swamps[:i:i], f.swamps[i+1:]...)
		}
	}, metadata.NewNoop())
	f.names = append(f.names, n.Get())
	f.swamps = append(f.swamps, s)
	return s, nil
}

func (f *gwHydra) IsExistSwamp(islandID uint64, n name.Name) (bool, error) {
	return f.find(n) >= 0, nil
}
func (f *gwHydra) GetLocker() lock.Lock { return f.lk }

type gwZeus struct {
	zeus.Zeus
	h  *gwHydra
	hz hydra.Hydra // overrides h when set
	so safeops.Safeops
}

func (z *gwZeus) GetHydra() hydra.Hydra {
	if z.hz != nil {
		return z.hz
	}
	return z.h
}
func (z *gwZeus) GetSafeops() safeops.Safeops { return z.so }

func gwNew(h *verifrt.H) (Gateway, *gwHydra) {
	h.BackgroundLowPriority(true)
	hy := &gwHydra{lk: lock.New()}
	return Gateway{ZeusInterface: &gwZeus{h: hy, so: safeops.New()}}, hy
}

const gwSwamp = "s/r/w"

func VerifProbeGateway(h *verifrt.H) {
	g, _ := gwNew(h)
	ctx := context.Background()
	v := h.Int64("v")
	resp, err := g.Set(ctx, &hydrapb.SetRequest{Swamps: []*hydrapb.SwampRequest{{
		SwampName: gwSwamp, CreateIfNotExist: true, Overwrite: true,
		KeyValues: []*hydrapb.KeyValuePair{{Key: "a", Int64Val: &v}},
	}}})
	h.Assert(err == nil && resp != nil, "set")
	h.Observe("status", int(resp.GetSwamps()[0].GetKeysAndStatuses()[0].GetStatus()))
	gr, err := g.Get(ctx, &hydrapb.GetRequest{Swamps: []*hydrapb.GetSwamp{{SwampName: gwSwamp, Keys: []string{"a", "b"}}}})
	h.Assert(err == nil && gr != nil, "get")
	ts := gr.GetSwamps()[0].GetTreasures()
	h.Assert(len(ts) == 2 && ts[0].GetIsExist() && ts[0].GetInt64Val() == v && !ts[1].GetIsExist(), "get-values")
	h.Cover("end")
}

// ---------- C06: reference key-value model ----------

type c6val struct {
	kind int // 1 int64, 2 string, 3 uint32 set
	i    int64
	s    string
	set  []uint32
}

type c6model struct {
	exists bool // the swamp exists (has been summoned and not auto-destroyed)
	keys   []string
	vals   []c6val
}

func (m *c6model) find(k string) int {
	for i, x := range m.keys {
		if x == k {
			return i
		}
	}
	return -1
}

func (m *c6model) put(k string, v c6val) {
	if i := m.find(k); i >= 0 {
		m.vals[i] = v
		return
	}
	m.keys = append(m.keys, k)
	m.vals = append(m.vals, v)
}

// del removes k; an emptied swamp is destroyed automatically (documented lifecycle).
func (m *c6model) del(k string) bool {
	i := m.find(k)
	if i < 0 {
		return false
	}
	m.keys = append(m.keys[:i:i], m.keys[i+1:]...)
	m.vals = append(m.vals[:i:i], m.vals[i+1:]...)
	if len(m.keys) == 0 {
		m.exists = false
	}
	return true
}

func c6has(set []uint32, v uint32) bool {
	for _, x := range set {
		if x == v {
			return true
		}
	}
	return false
}

var c6keys = []string{"a", "b"}

// c6sameVal compares a wire treasure with a model value.
func c6sameVal(t *hydrapb.Treasure, v c6val) bool {
	switch v.kind {
	case 1:
		return t.Int64Val != nil && *t.Int64Val == v.i
	case 2:
		return t.StringVal != nil && *t.StringVal == v.s
	case 3:
		if len(t.Uint32Slice) != len(v.set) {
			return false
		}
		for _, x := range v.set {
			if !c6has(t.Uint32Slice, x) {
				return false
			}
		}
		return true
	}
	return false
}

// VerifC06Model: every sequence of up to maxRequests requests out of Set (create/overwrite
// flags, one or two items, possibly the same key twice), Get, Delete, Count, IsKeyExist,
// IncrementInt64, Uint32SlicePush, Uint32SliceDelete, Uint32SliceSize and ShiftByKeys over two keys
// with symbolic values, against a real in-memory swamp behind the real Gateway: every response
// and the final contents match the reference model, and every request returns.
func VerifC06Model(h *verifrt.H) {
	g, hy := gwNew(h)
	ctx := context.Background()
	m := &c6model{}
	n := h.Len("requests", 1, h.Param("maxRequests", 2))
	kinds := h.Param("kinds", 10)
	for r := 0; r < n; r++ {
		switch h.Choose("request", kinds) {
		case 0: // Set
			create, over := h.Choose("createIfNotExist", 2) == 1, h.Choose("overwrite", 2) == 1
			items := h.Len("items", 1, 2)
			var kvs []*hydrapb.KeyValuePair
			var ks []string
			var vs []c6val
			for i := 0; i < items; i++ {
				k := c6keys[h.Choose("key", 2)]
				kv := &hydrapb.KeyValuePair{Key: k}
				var v c6val
				if h.Choose("valueKind", 2) == 0 {
					x := h.Int64("intValue")
					kv.Int64Val, v = &x, c6val{kind: 1, i: x}
				} else {
					x := h.String("strValue", 1)
					kv.StringVal, v = &x, c6val{kind: 2, s: x}
				}
				kvs, ks, vs = append(kvs, kv), append(ks, k), append(vs, v)
			}
			resp, err := g.Set(ctx, &hydrapb.SetRequest{Swamps: []*hydrapb.SwampRequest{{SwampName: gwSwamp, CreateIfNotExist: create, Overwrite: over, KeyValues: kvs}}})
			h.Assert(err == nil && resp != nil && len(resp.Swamps) == 1, "set-returns-one-swamp-response")
			if err != nil || resp == nil || len(resp.Swamps) != 1 {
				return
			}
			sr := resp.Swamps[0]
			switch {
			case !create && !over:
				h.Assert(sr.ErrorCode != nil && *sr.ErrorCode == hydrapb.SwampResponse_CanNotBeExecuted, "set-no-flags-cannot-be-executed")
			case !create && !m.exists:
				h.Assert(sr.ErrorCode != nil && *sr.ErrorCode == hydrapb.SwampResponse_SwampDoesNotExist, "set-update-only-on-missing-swamp")
			default:
				m.exists = true
				h.Assert(sr.ErrorCode == nil && len(sr.KeysAndStatuses) == items, "set-status-per-item")
				if len(sr.KeysAndStatuses) != items {
					return
				}
				for i := 0; i < items; i++ {
					idx := m.find(ks[i])
					want := hydrapb.Status_NEW
					switch {
					case !create && idx < 0:
						want = hydrapb.Status_NOT_FOUND
					case !over && idx >= 0:
						want = hydrapb.Status_NOTHING_CHANGED
					case idx >= 0:
						want = hydrapb.Status_UPDATED
						m.put(ks[i], vs[i])
					default:
						m.put(ks[i], vs[i])
					}
					got := sr.KeysAndStatuses[i].Status
					// an overwrite with an identical value may be reported as UPDATED or NOTHING_CHANGED
					h.Assert(got == want || want == hydrapb.Status_UPDATED && got == hydrapb.Status_NOTHING_CHANGED, "set-item-status")
				}
				if len(m.keys) == 0 {
					// a Set that stored nothing leaves an empty, existing swamp
					m.exists = true
				}
			}
		case 1: // Get both keys
			resp, err := g.Get(ctx, &hydrapb.GetRequest{Swamps: []*hydrapb.GetSwamp{{SwampName: gwSwamp, Keys: c6keys}}})
			if !m.exists {
				h.Assert(err != nil, "get-on-missing-swamp-is-an-error")
				break
			}
			h.Assert(err == nil && resp != nil && len(resp.Swamps) == 1 && len(resp.Swamps[0].Treasures) == 2, "get-returns-one-entry-per-key")
			if err != nil || resp == nil || len(resp.Swamps) != 1 || len(resp.Swamps[0].Treasures) != 2 {
				return
			}
			for i, k := range c6keys {
				t := resp.Swamps[0].Treasures[i]
				idx := m.find(k)
				h.Assert(t.Key == k && t.IsExist == (idx >= 0), "get-existence")
				if idx >= 0 && t.IsExist {
					h.Assert(c6sameVal(t, m.vals[idx]), "get-value")
				}
			}
		case 2: // Delete one key
			k := c6keys[h.Choose("key", 2)]
			resp, err := g.Delete(ctx, &hydrapb.DeleteRequest{Swamps: []*hydrapb.DeleteRequest_SwampKeys{{SwampName: gwSwamp, Keys: []string{k}}}})
			h.Assert(err == nil && resp != nil && len(resp.Responses) == 1, "delete-returns")
			if err != nil || resp == nil || len(resp.Responses) != 1 {
				return
			}
			dr := resp.Responses[0]
			if !m.exists {
				h.Assert(dr.ErrorCode != nil && *dr.ErrorCode == hydrapb.DeleteResponse_SwampDeleteResponse_SwampDoesNotExist, "delete-on-missing-swamp")
				break
			}
			want := hydrapb.Status_NOT_FOUND
			if m.del(k) {
				want = hydrapb.Status_DELETED
			}
			h.Assert(dr.ErrorCode == nil && len(dr.KeyStatuses) == 1 && dr.KeyStatuses[0].Status == want, "delete-status")
		case 3: // Count
			resp, err := g.Count(ctx, &hydrapb.CountRequest{Swamps: []*hydrapb.CountRequest_SwampIdentifier{{SwampName: gwSwamp}}})
			if !m.exists {
				// documented either as an error or as IsExist=false
				h.Assert(err != nil || resp != nil && len(resp.Swamps) == 1 && !resp.Swamps[0].IsExist, "count-on-missing-swamp")
				break
			}
			h.Assert(err == nil && resp != nil && len(resp.Swamps) == 1 && resp.Swamps[0].IsExist && int(resp.Swamps[0].Count) == len(m.keys), "count-equals-number-of-keys")
		case 4: // IsKeyExist
			k := c6keys[h.Choose("key", 2)]
			resp, err := g.IsKeyExist(ctx, &hydrapb.IsKeyExistRequest{SwampName: gwSwamp, Key: k})
			if !m.exists {
				h.Assert(err != nil, "iskeyexist-on-missing-swamp-is-an-error")
				break
			}
			h.Assert(err == nil && resp != nil && resp.IsExist == (m.find(k) >= 0), "iskeyexist")
		case 5: // IncrementInt64
			k := c6keys[h.Choose("key", 2)]
			by := h.Int64("incrementBy")
			h.Assume(by != 0)
			resp, err := g.IncrementInt64(ctx, &hydrapb.IncrementInt64Request{SwampName: gwSwamp, Key: k, IncrementBy: by})
			m.exists = true
			idx := m.find(k)
			switch {
			case idx < 0:
				h.Assert(err == nil && resp != nil && resp.IsIncremented && resp.Value == by, "increment-creates-missing-key")
				m.put(k, c6val{kind: 1, i: by})
			case m.vals[idx].kind == 1:
				h.Assert(err == nil && resp != nil && resp.IsIncremented && resp.Value == m.vals[idx].i+by, "increment-adds")
				m.vals[idx].i += by
			default:
				h.Assert(err != nil, "increment-on-non-integer-is-an-error")
			}
		case 6: // Uint32SlicePush
			k := c6keys[h.Choose("key", 2)]
			v1, v2 := h.Uint32("push1"), h.Uint32("push2")
			_, err := g.Uint32SlicePush(ctx, &hydrapb.AddToUint32SlicePushRequest{SwampName: gwSwamp, KeySlicePairs: []*hydrapb.KeySlicePair{{Key: k, Values: []uint32{v1, v2}}}})
			m.exists = true
			idx := m.find(k)
			switch {
			case idx < 0:
				h.Assert(err == nil, "push-creates-missing-key")
				set := []uint32{v1}
				if v2 != v1 {
					set = append(set, v2)
				}
				m.put(k, c6val{kind: 3, set: set})
			case m.vals[idx].kind == 3:
				h.Assert(err == nil, "push-adds")
				for _, v := range []uint32{v1, v2} {
					if !c6has(m.vals[idx].set, v) {
						m.vals[idx].set = append(m.vals[idx].set, v)
					}
				}
			default:
				// pushing onto a key that holds another type is not documented: the request
				// must return; what it stores is outside the claim
				_ = err
				h.Assume(false)
			}
		case 7: // Uint32SliceDelete
			k := c6keys[h.Choose("key", 2)]
			v := h.Uint32("deleteValue")
			_, err := g.Uint32SliceDelete(ctx, &hydrapb.Uint32SliceDeleteRequest{SwampName: gwSwamp, KeySlicePairs: []*hydrapb.KeySlicePair{{Key: k, Values: []uint32{v}}}})
			m.exists = true
			idx := m.find(k)
			switch {
			case idx < 0:
				h.Assert(err == nil, "set-delete-on-missing-key-is-a-no-op")
			case m.vals[idx].kind == 3:
				h.Assert(err == nil, "set-delete-ok")
				var rest []uint32
				for _, x := range m.vals[idx].set {
					if x != v {
						rest = append(rest, x)
					}
				}
				if len(rest) == 0 {
					m.del(k) // an emptied set removes the record (and an emptied swamp)
				} else {
					m.vals[idx].set = rest
				}
			default:
				// removing values from a key that holds another type: the request must return and
				// the record must be left alone
				_ = err
			}
		case 8: // Uint32SliceSize
			k := c6keys[h.Choose("key", 2)]
			resp, err := g.Uint32SliceSize(ctx, &hydrapb.Uint32SliceSizeRequest{SwampName: gwSwamp, Key: k})
			m.exists = true
			idx := m.find(k)
			if idx >= 0 && m.vals[idx].kind == 3 {
				h.Assert(err == nil && resp != nil && int(resp.Size) == len(m.vals[idx].set), "set-size")
			} else {
				h.Assert(err != nil, "set-size-on-missing-or-non-set-is-an-error")
			}
		case 9: // ShiftByKeys: one or two keys, possibly the same key twice
			nk := h.Len("shiftKeys", 1, 2)
			var ks []string
			for i := 0; i < nk; i++ {
				ks = append(ks, c6keys[h.Choose("key", 2)])
			}
			resp, err := g.ShiftByKeys(ctx, &hydrapb.ShiftByKeysRequest{SwampName: gwSwamp, Keys: ks})
			if !m.exists {
				h.Assert(err != nil || resp != nil && len(resp.Treasures) == 0, "shift-on-missing-swamp")
				break
			}
			// the model: every requested key that is stored is handed out exactly once
			var wantKeys []string
			var wantVals []c6val
			for _, k := range ks {
				if idx := m.find(k); idx >= 0 {
					wantKeys, wantVals = append(wantKeys, k), append(wantVals, m.vals[idx])
					m.del(k)
				}
			}
			if len(wantKeys) == 0 {
				h.Assert(err == nil && resp != nil && len(resp.Treasures) == 0, "shift-missing-key-returns-nothing")
				if len(m.keys) == 0 {
					m.exists = false // a shift that leaves the swamp empty removes it
				}
				break
			}
			h.Assert(err == nil && resp != nil && len(resp.Treasures) == len(wantKeys), "shift-returns-the-record")
			if err == nil && resp != nil && len(resp.Treasures) == len(wantKeys) {
				for i, k := range wantKeys {
					found := false
					for _, tr := range resp.Treasures {
						if tr.Key == k && c6sameVal(tr, wantVals[i]) {
							found = true
						}
					}
					h.Assert(found, "shift-returns-the-record")
				}
			}
		}
		// the server and the model agree on whether the swamp exists after every request
		ex, _ := hy.IsExistSwamp(0, name.Load(gwSwamp))
		h.Assert(ex == m.exists, "swamp-existence-after-request")
	}
	h.Cover("end")
}

// ---------- C12 at gateway level: PatchTreasures batches with a Cap ----------

// c12unmarshal replaces msgpack.Unmarshal (reflection-based) for the bodies used here:
// {"s": "<one char>"} decodes to map[string]interface{}{"s": string}.
func c12unmarshal(data []byte, v interface{}) error {
	m := map[string]interface{}{}
	if len(data) == 5 && data[0] == 0x81 && data[1] == 0xa1 && data[3] == 0xa1 {
		m[string(data[2:3])] = string(data[4:5])
	} else if !(len(data) == 1 && data[0] == 0x80) {
		return errors.New("c12unmarshal: body shape not modelled")
	}
	if p, ok := v.(*map[string]interface{}); ok {
		*p = m
		return nil
	}
	return errors.New("c12unmarshal: target not modelled")
}

// VerifC12Gateway: two concurrent PatchTreasures batches, each carrying the same Cap (at most 1
// record with s == "d") and each moving ONE of two non-matching records into the filter, through
// the real gateway handlers on a real in-memory swamp. At quiescence at most 1 record matches,
// and exactly the batches that were granted budget report PATCHED.
func VerifC12Gateway(h *verifrt.H) {
	g, _ := gwNew(h)
	h.Stub("github.com/vmihailenco/msgpack/v5.Unmarshal", c12unmarshal)
	ctx := context.Background()
	body := func(c byte) []byte { return []byte{0xC7, 0x00, 0x81, 0xa1, 's', 0xa1, c} }
	_, err := g.Set(ctx, &hydrapb.SetRequest{Swamps: []*hydrapb.SwampRequest{{SwampName: gwSwamp, CreateIfNotExist: true, Overwrite: true,
		KeyValues: []*hydrapb.KeyValuePair{{Key: "a", BytesVal: body('p')}, {Key: "b", BytesVal: body('p')}}}}})
	h.Assert(err == nil, "setup")
	path := "s"
	cap := &hydrapb.Cap{MaxMatching: 1, Filter: &hydrapb.FilterGroup{Filters: []*hydrapb.TreasureFilter{{
		Operator: hydrapb.Relational_EQUAL, BytesFieldPath: &path, CompareValue: &hydrapb.TreasureFilter_StringVal{StringVal: "d"}}}}}
	patched := 0
	for _, k := range []string{"a", "b"} {
		k := k
		h.Go("batch", func() {
			resp, err := g.PatchTreasures(ctx, &hydrapb.PatchTreasuresRequest{SwampName: gwSwamp, Cap: cap,
				Patches: []*hydrapb.TreasurePatch{{Key: k, Ops: []*hydrapb.PatchOp{{Op: hydrapb.PatchOp_SET, Path: "s", Value: []byte{0xa1, 'd'}}}}}})
			h.Assert(err == nil && resp != nil && len(resp.Results) == 1, "cap-batch-returns")
			if err == nil && resp != nil && len(resp.Results) == 1 && resp.Results[0].Status == hydrapb.PatchResult_PATCHED {
				patched++
			}
		})
	}
	h.AtQuiescence(func() {
		resp, err := g.Get(ctx, &hydrapb.GetRequest{Swamps: []*hydrapb.GetSwamp{{SwampName: gwSwamp, Keys: []string{"a", "b"}}}})
		h.Assert(err == nil && resp != nil, "final-read")
		if err != nil || resp == nil {
			return
		}
		matching := 0
		for _, t := range resp.Swamps[0].Treasures {
			if len(t.BytesVal) == 7 && t.BytesVal[6] == 'd' {
				matching++
			}
		}
		h.Assert(matching <= 1, "matches-never-exceed-cap")
		h.Assert(matching == patched, "patched-results-equal-moved-records")
		h.Cover("end")
	})
}

// VerifC12Create: cap-bearing PatchTreasures that CREATE records (CreateIfNotExist) from a seed
// body (InitialMsgpackOnCreate) which already matches the cap filter or not, with an op that
// moves the record into the filter or leaves it alone: two sequential single-key batches over
// fresh keys against a swamp that holds no matching record and cap 1 - afterwards at most one
// record matches, whatever the seed looks like (a freshly created record never counted before).
func VerifC12Create(h *verifrt.H) {
	g, _ := gwNew(h)
	h.Stub("github.com/vmihailenco/msgpack/v5.Unmarshal", c12unmarshal)
	ctx := context.Background()
	body := func(c byte) []byte { return []byte{0xC7, 0x00, 0x81, 0xa1, 's', 0xa1, c} }
	_, err := g.Set(ctx, &hydrapb.SetRequest{Swamps: []*hydrapb.SwampRequest{{SwampName: gwSwamp, CreateIfNotExist: true, Overwrite: true,
		KeyValues: []*hydrapb.KeyValuePair{{Key: "a", BytesVal: body('p')}}}}})
	h.Assert(err == nil, "setup")
	path := "s"
	cap := &hydrapb.Cap{MaxMatching: 1, Filter: &hydrapb.FilterGroup{Filters: []*hydrapb.TreasureFilter{{
		Operator: hydrapb.Relational_EQUAL, BytesFieldPath: &path, CompareValue: &hydrapb.TreasureFilter_StringVal{StringVal: "d"}}}}}
	seeds := [][]byte{nil, {0x81, 0xa1, 's', 0xa1, 'p'}, {0x81, 0xa1, 's', 0xa1, 'd'}}
	for _, k := range []string{"c", "e"} {
		seed := seeds[h.Choose("seed", len(seeds))]
		val := []byte{0xa1, 'd'}
		if h.Choose("opMovesIntoFilter", 2) == 0 {
			val = []byte{0xa1, 'q'}
		}
		opPath := "s"
		resp, err := g.PatchTreasures(ctx, &hydrapb.PatchTreasuresRequest{SwampName: gwSwamp, Cap: cap, CreateIfNotExist: true, InitialMsgpackOnCreate: seed,
			Patches: []*hydrapb.TreasurePatch{{Key: k, Ops: []*hydrapb.PatchOp{{Op: hydrapb.PatchOp_SET, Path: opPath, Value: val}}}}})
		h.Assert(err != nil || resp != nil, "cap-create-batch-returns")
	}
	resp, err := g.Get(ctx, &hydrapb.GetRequest{Swamps: []*hydrapb.GetSwamp{{SwampName: gwSwamp, Keys: []string{"a", "c", "e"}}}})
	h.Assert(err == nil && resp != nil, "final-read")
	if err != nil || resp == nil {
		return
	}
	matching := 0
	for _, t := range resp.Swamps[0].Treasures {
		b := t.BytesVal
		for i := 0; i+3 < len(b); i++ {
			if b[i] == 0xa1 && b[i+1] == 's' && b[i+2] == 0xa1 && b[i+3] == 'd' {
				matching++
				break
			}
		}
	}
	h.Assert(matching <= 1, "created-matches-never-exceed-cap")
	h.Cover("end")
}

// ---------- C19 at gateway level: event conversion and the stream ----------

// c19stream is the server side of a subscription stream: SendMsg appends to a plain slice, like
// a transport that (as gRPC documents) must not be used by two senders at once.
type c19stream struct {
	hydrapb.HydraideService_SubscribeToEventsServer
	ctx  context.Context
	sent []*hydrapb.SubscribeToEventsResponse
}

func (s *c19stream) Context() context.Context { return s.ctx }
func (s *c19stream) SendMsg(m any) error {
	s.sent = append(s.sent, m.(*hydrapb.SubscribeToEventsResponse))
	return nil
}

// c19hydra extends the minimal server by a single subscriber slot.
type c19hydra struct {
	gwHydra
	cb          func(*swamp.Event)
	onSubscribe func()
}

func (f *c19hydra) SubscribeToSwampEvents(id uuid.UUID, n name.Name, cb func(*swamp.Event)) error {
	f.cb = cb
	if f.onSubscribe != nil {
		f.onSubscribe()
	}
	return nil
}
func (f *c19hydra) UnsubscribeFromSwampEvents(id uuid.UUID, n name.Name) error {
	f.cb = nil
	return nil
}

// VerifC19Stream: the real SubscribeToEvents handler with its real conversion closure. Events
// with a SYMBOLIC change time (UnixNano) and value are delivered by one or two writers
// concurrently: every message carries the change's wall-clock time and value, and the stream is
// never used by two senders at the same time (race detector).
func VerifC19Stream(h *verifrt.H) {
	h.BackgroundLowPriority(true)
	hy := &c19hydra{gwHydra: gwHydra{lk: lock.New()}}
	g := Gateway{ZeusInterface: &gwZeus{h: &hy.gwHydra, hz: hy, so: safeops.New()}}
	st := &c19stream{ctx: context.Background()}
	writers := h.Param("writers", 2)
	var times [2]int64
	var vals [2]int64
	for w := 0; w < writers; w++ {
		// representative instants (division by 10^9 on a fully symbolic 64-bit value does not
		// terminate in any of the available solvers): sub-second, second boundaries, a real date
		times[w] = []int64{1, 999_999_999, 1_000_000_000, 1_700_000_000_123_456_789}[h.Choose("eventTime", 4)]
		vals[w] = h.Int64("value")
	}
	// the writers start as soon as the handler has registered its callback
	hy.onSubscribe = func() {
		for w := 0; w < writers; w++ {
			w := w
			h.Go("writer", func() {
				t := treasureForEvent(vals[w], w)
				hy.cb(&swamp.Event{SwampName: name.Load(gwSwamp), Treasure: t, StatusType: treasure.StatusNew, EventTime: times[w]})
			})
		}
	}
	h.Go("subscription", func() {
		h.Daemon() // the handler blocks until the client goes away
		_ = g.SubscribeToEvents(&hydrapb.SubscribeToEventsRequest{SwampName: gwSwamp}, st)
	})
	h.AtQuiescence(func() {
		h.Assert(len(st.sent) == writers, "one-message-per-event")
		for _, m := range st.sent {
			w := 0
			if m.Treasure.GetKey() == "k1" {
				w = 1
			}
			h.Assert(m.Treasure.GetInt64Val() == vals[w], "message-carries-committed-value")
			ts := m.EventTime
			h.Assert(ts != nil && ts.Seconds*1_000_000_000+int64(ts.Nanos) == times[w], "message-time-is-the-change-time")
		}
		h.Cover("end")
	})
}

func treasureForEvent(v int64, w int) treasure.Treasure {
	t := treasure.New(nil)
	g := t.StartTreasureGuard(true, guard.BodyAuthID)
	key := "k0"
	if w == 1 {
		key = "k1"
	}
	t.BodySetKey(g, key)
	t.SetContentInt64(g, v)
	t.ReleaseTreasureGuard(g)
	return t
}

// ---------- C26: malformed requests ----------

// VerifC26Malformed: every listed unary handler gets a structurally malformed request: a swamp
// name of 0..maxName SYMBOLIC bytes (so any number of '/' separators, empty parts, ...), key
// lists that are nil / hold an empty key / hold a normal key, a symbolic (possibly negative)
// offset and limit, a zero increment. A well-formed swamp "s/r/w" with one record exists next to
// it. Every handler must return an error or a non-nil response - never (nil, nil) -, no panic may
// escape, the system lock must be released, and afterwards the existing record is intact and
// the well-formed swamp still works.
func VerifC26Malformed(h *verifrt.H) {
	g, _ := gwNew(h)
	ctx := context.Background()
	one := int64(1)
	_, err := g.Set(ctx, &hydrapb.SetRequest{Swamps: []*hydrapb.SwampRequest{{SwampName: gwSwamp, CreateIfNotExist: true, Overwrite: true,
		KeyValues: []*hydrapb.KeyValuePair{{Key: "a", Int64Val: &one}}}}})
	h.Assert(err == nil, "setup")
	sn := gwSwamp
	if h.Choose("goodSwampName", 2) == 0 {
		sn = h.String("swampName", h.Len("swampNameLen", 0, h.Param("maxName", 4)))
		// The server parses names leniently: everything after the third part is ignored, so
		// "s/r/w/" or "s/r/w/x" address the well-formed swamp itself. Such a request is a
		// request to that swamp (a Destroy then removes it as asked), not a malformed one.
		h.Assume(!(len(sn) > len(gwSwamp) && sn[:len(gwSwamp)+1] == gwSwamp+"/"))
	}
	var keys []string
	switch h.Choose("keys", 3) {
	case 1:
		keys = []string{""}
	case 2:
		keys = []string{"a"}
	}
	key := ""
	if len(keys) > 0 {
		key = keys[0]
	}
	from, limit := int32(h.IntRange("from", -1, 2)), int32(h.IntRange("limit", -1, 2))
	var resp any
	var rerr error
	isNil := false
	check := func(r any, nilResp bool, e error) { resp, isNil, rerr = r, nilResp, e }
	batchRejected, batchSet := false, false
	switch h.Choose("handler", h.Param("handlers", 13)) {
	case 0:
		r, e := g.Get(ctx, &hydrapb.GetRequest{Swamps: []*hydrapb.GetSwamp{{SwampName: sn, Keys: keys}}})
		check(r, r == nil, e)
	case 1:
		r, e := g.Delete(ctx, &hydrapb.DeleteRequest{Swamps: []*hydrapb.DeleteRequest_SwampKeys{{SwampName: sn, Keys: keys}}})
		check(r, r == nil, e)
	case 2:
		r, e := g.Count(ctx, &hydrapb.CountRequest{Swamps: []*hydrapb.CountRequest_SwampIdentifier{{SwampName: sn}}})
		check(r, r == nil, e)
	case 3:
		r, e := g.IsKeyExist(ctx, &hydrapb.IsKeyExistRequest{SwampName: sn, Key: key})
		check(r, r == nil, e)
	case 4:
		r, e := g.GetByIndex(ctx, &hydrapb.GetByIndexRequest{SwampName: sn, IndexType: hydrapb.IndexType_KEY, OrderType: hydrapb.OrderType_ASC, From: from, Limit: limit})
		check(r, r == nil, e)
	case 5:
		r, e := g.ShiftByKeys(ctx, &hydrapb.ShiftByKeysRequest{SwampName: sn, Keys: keys})
		check(r, r == nil, e)
	case 6:
		r, e := g.IncrementInt64(ctx, &hydrapb.IncrementInt64Request{SwampName: sn, Key: key, IncrementBy: int64(h.Choose("incrementBy", 2))})
		check(r, r == nil, e)
	case 7:
		var kvs []*hydrapb.KeyValuePair
		for _, k := range keys {
			kvs = append(kvs, &hydrapb.KeyValuePair{Key: k, Int64Val: &one})
		}
		r, e := g.Set(ctx, &hydrapb.SetRequest{Swamps: []*hydrapb.SwampRequest{{SwampName: sn, CreateIfNotExist: true, Overwrite: true, KeyValues: kvs}}})
		check(r, r == nil, e)
	case 8:
		r, e := g.Uint32SliceSize(ctx, &hydrapb.Uint32SliceSizeRequest{SwampName: sn, Key: key})
		check(r, r == nil, e)
	case 9:
		r, e := g.IsSwampExist(ctx, &hydrapb.IsSwampExistRequest{SwampName: sn})
		check(r, r == nil, e)
	case 10: // a batch RPC: one well-formed entry and the malformed one
		r, e := g.ShiftExpiredTreasuresMany(ctx, &hydrapb.ShiftExpiredTreasuresManyRequest{Requests: []*hydrapb.ShiftExpiredTreasuresRequest{
			{SwampName: gwSwamp, HowMany: 1}, {SwampName: sn, HowMany: limit}}})
		check(r, r == nil, e)
		h.Assert(e != nil || r != nil && len(r.Responses) == 2, "batch-one-entry-per-request")
	case 11:
		r, e := g.Destroy(ctx, &hydrapb.DestroyRequest{SwampName: sn})
		check(r, r == nil, e)
	case 12: // a Set batch over two swamps: a well-formed entry first, then the malformed one (bad name and/or nil KeyValues)
		two := int64(2)
		var kvs []*hydrapb.KeyValuePair
		for _, k := range keys {
			kvs = append(kvs, &hydrapb.KeyValuePair{Key: k, Int64Val: &one})
		}
		r, e := g.Set(ctx, &hydrapb.SetRequest{Swamps: []*hydrapb.SwampRequest{
			{SwampName: gwSwamp, CreateIfNotExist: true, Overwrite: true, KeyValues: []*hydrapb.KeyValuePair{{Key: "a", Int64Val: &two}, {Key: "b", Int64Val: &two}}},
			{SwampName: sn, CreateIfNotExist: true, Overwrite: true, KeyValues: kvs}}})
		check(r, r == nil, e)
		batchRejected, batchSet = e != nil, true
	}
	_ = resp
	h.Assert(!isNil || rerr != nil, "handler-returns-error-or-response")
	h.ClearKnown()
	h.Assert(!g.ZeusInterface.GetSafeops().SystemLocked(), "system-lock-released")
	// the untouched record is still there and the server still works
	gr, gerr := g.Get(ctx, &hydrapb.GetRequest{Swamps: []*hydrapb.GetSwamp{{SwampName: gwSwamp, Keys: []string{"a"}}}})
	touched := sn == gwSwamp || batchSet
	if batchRejected {
		// a request that is rejected as a whole has written nothing: not the entries in front of the malformed one either
		h.Assert(gerr == nil && gr != nil && len(gr.Swamps) == 1 && len(gr.Swamps[0].Treasures) == 1 && gr.Swamps[0].Treasures[0].IsExist && gr.Swamps[0].Treasures[0].GetInt64Val() == 1, "rejected-batch-left-existing-record-unchanged")
		br, berr := g.IsKeyExist(ctx, &hydrapb.IsKeyExistRequest{SwampName: gwSwamp, Key: "b"})
		h.Assert(berr != nil || br != nil && !br.IsExist, "rejected-batch-created-nothing")
	} else if !touched {
		h.Assert(gerr == nil && gr != nil && len(gr.Swamps) == 1 && len(gr.Swamps[0].Treasures) == 1 && gr.Swamps[0].Treasures[0].IsExist && gr.Swamps[0].Treasures[0].GetInt64Val() == 1, "existing-data-intact-and-server-usable")
	} else {
		h.Assert(gerr != nil || gr != nil, "server-usable-afterwards")
	}
	h.Cover("end")
}

// ---------- C08: one equality rule on both routes ----------

// VerifC08Equality: a body field holding a value of any numeric kind / string / bool (symbolic)
// is compared for EQUAL against a compare value of any kind (symbolic) by the two routes a
// streamed query can take: the full-scan route (evaluateBytesFieldFilterAgainstMap on the decoded
// body) and the auto-index route (canonical keys: the record is found in a bucket iff
// valuecanon.Equal(Canonicalize(field), Canonicalize(compare value))). Both verdicts must agree.
func VerifC08Equality(h *verifrt.H) {
	var field any
	numeric := true
	switch h.Choose("fieldKind", 12) {
	case 0:
		field = h.Int8("field")
	case 1:
		field = h.Int16("field")
	case 2:
		field = h.Int32("field")
	case 3:
		field = h.Int64("field")
	case 4:
		field = h.Uint8("field")
	case 5:
		field = h.Uint16("field")
	case 6:
		field = h.Uint32("field")
	case 7:
		field = h.Uint64("field")
	case 8:
		f := h.Float32("field")
		h.Assume(f == f)
		field = f
	case 9:
		f := h.Float64("field")
		h.Assume(f == f)
		field = f
	case 10:
		field, numeric = h.String("field", 1), false
	case 11:
		field, numeric = h.Bool("field"), false
	}
	path := "f"
	flt := &hydrapb.TreasureFilter{Operator: hydrapb.Relational_EQUAL, BytesFieldPath: &path}
	switch h.Choose("compareKind", 12) {
	case 0:
		flt.CompareValue = &hydrapb.TreasureFilter_Int8Val{Int8Val: int32(h.Int8("cmp"))}
	case 1:
		flt.CompareValue = &hydrapb.TreasureFilter_Int16Val{Int16Val: int32(h.Int16("cmp"))}
	case 2:
		flt.CompareValue = &hydrapb.TreasureFilter_Int32Val{Int32Val: h.Int32("cmp")}
	case 3:
		flt.CompareValue = &hydrapb.TreasureFilter_Int64Val{Int64Val: h.Int64("cmp")}
	case 4:
		flt.CompareValue = &hydrapb.TreasureFilter_Uint8Val{Uint8Val: uint32(h.Uint8("cmp"))}
	case 5:
		flt.CompareValue = &hydrapb.TreasureFilter_Uint16Val{Uint16Val: uint32(h.Uint16("cmp"))}
	case 6:
		flt.CompareValue = &hydrapb.TreasureFilter_Uint32Val{Uint32Val: h.Uint32("cmp")}
	case 7:
		flt.CompareValue = &hydrapb.TreasureFilter_Uint64Val{Uint64Val: h.Uint64("cmp")}
	case 8:
		f := h.Float32("cmp")
		h.Assume(f == f)
		flt.CompareValue = &hydrapb.TreasureFilter_Float32Val{Float32Val: f}
	case 9:
		f := h.Float64("cmp")
		h.Assume(f == f)
		flt.CompareValue = &hydrapb.TreasureFilter_Float64Val{Float64Val: f}
	case 10:
		flt.CompareValue = &hydrapb.TreasureFilter_StringVal{StringVal: h.String("cmp", 1)}
	case 11:
		b := hydrapb.Boolean_FALSE
		if h.Bool("cmp") {
			b = hydrapb.Boolean_TRUE
		}
		flt.CompareValue = &hydrapb.TreasureFilter_BoolVal{BoolVal: b}
	}
	scan := evaluateBytesFieldFilterAgainstMap(map[string]interface{}{"f": field}, flt)
	cv, ok := compareValueToAny(flt)
	h.Assert(ok, "compare-value-is-indexable")
	index := valuecanon.Equal(valuecanon.Canonicalize(field), valuecanon.Canonicalize(cv))
	_ = numeric
	h.Assert(scan == index, "scan-route-and-index-route-agree-on-equality")
	h.Cover("end")
}

// ---------- C05: wire conversion around a close/reload ----------

// VerifC05Wire: a Set value of every wire type (symbolic value, zero-like values included,
// within the range of its type) goes through the gateway's keyValuesToTreasure, the storage
// form (ConvertToByte / LoadFromByte into a fresh record, as close and re-summon do) and back
// through treasureToKeyValuePair: the response carries the same type and the same value as the
// response before the close, and as the request.
func VerifC05Wire(h *verifrt.H) {
	kv := &hydrapb.KeyValuePair{Key: "k"}
	kind := h.Choose("wireType", 15)
	switch kind {
	case 0:
		v := int32(h.Int8("value"))
		kv.Int8Val = &v
	case 1:
		v := int32(h.Int16("value"))
		kv.Int16Val = &v
	case 2:
		v := h.Int32("value")
		kv.Int32Val = &v
	case 3:
		v := h.Int64("value")
		kv.Int64Val = &v
	case 4:
		v := uint32(h.Uint8("value"))
		kv.Uint8Val = &v
	case 5:
		v := uint32(h.Uint16("value"))
		kv.Uint16Val = &v
	case 6:
		v := h.Uint32("value")
		kv.Uint32Val = &v
	case 7:
		v := h.Uint64("value")
		kv.Uint64Val = &v
	case 8:
		v := h.Float32("value")
		h.Assume(v == v)
		kv.Float32Val = &v
	case 9:
		v := h.Float64("value")
		h.Assume(v == v)
		kv.Float64Val = &v
	case 10:
		v := h.String("value", h.Len("valueLen", 0, 2))
		kv.StringVal = &v
	case 11:
		if h.Bool("value") {
			kv.BoolVal = hydrapb.Boolean_TRUE.Enum()
		} else {
			kv.BoolVal = hydrapb.Boolean_FALSE.Enum()
		}
	case 12:
		kv.BytesVal = h.Bytes("value", h.Len("valueLen", 0, 2))
	case 13:
		n := h.Len("valueLen", 1, 2)
		vals := make([]uint32, n)
		for i := range vals {
			vals[i] = h.Uint32("elem")
		}
		h.Assume(n < 2 || vals[0] != vals[1])
		kv.Uint32Slice = vals
	case 14:
		t := true
		kv.VoidVal = &t
	}
	by := h.String("createdBy", h.Len("byLen", 0, 1))
	if by != "" {
		kv.CreatedBy = &by
	}

	tr := treasure.New(nil)
	g := tr.StartTreasureGuard(true)
	tr.BodySetKey(g, "k")
	keyValuesToTreasure(kv, tr, g)
	before := &hydrapb.Treasure{}
	treasureToKeyValuePair(tr, before)
	blob, err := tr.ConvertToByte(g)
	h.Assert(err == nil, "encode-ok")
	tr.ReleaseTreasureGuard(g)

	re := treasure.New(nil)
	rg := re.StartTreasureGuard(true, guard.BodyAuthID)
	h.Assert(re.LoadFromByte(rg, blob, "f.hyd") == nil, "decode-ok")
	re.ReleaseTreasureGuard(rg)
	after := &hydrapb.Treasure{}
	treasureToKeyValuePair(re, after)

	same := func(a, b *hydrapb.Treasure) bool {
		eqI32 := func(x, y *int32) bool { return (x == nil) == (y == nil) && (x == nil || *x == *y) }
		eqU32 := func(x, y *uint32) bool { return (x == nil) == (y == nil) && (x == nil || *x == *y) }
		if !eqI32(a.Int8Val, b.Int8Val) || !eqI32(a.Int16Val, b.Int16Val) || !eqI32(a.Int32Val, b.Int32Val) {
			return false
		}
		if !eqU32(a.Uint8Val, b.Uint8Val) || !eqU32(a.Uint16Val, b.Uint16Val) || !eqU32(a.Uint32Val, b.Uint32Val) {
			return false
		}
		if (a.Int64Val == nil) != (b.Int64Val == nil) || a.Int64Val != nil && *a.Int64Val != *b.Int64Val {
			return false
		}
		if (a.Uint64Val == nil) != (b.Uint64Val == nil) || a.Uint64Val != nil && *a.Uint64Val != *b.Uint64Val {
			return false
		}
		if (a.Float32Val == nil) != (b.Float32Val == nil) || a.Float32Val != nil && *a.Float32Val != *b.Float32Val {
			return false
		}
		if (a.Float64Val == nil) != (b.Float64Val == nil) || a.Float64Val != nil && *a.Float64Val != *b.Float64Val {
			return false
		}
		if (a.StringVal == nil) != (b.StringVal == nil) || a.StringVal != nil && *a.StringVal != *b.StringVal {
			return false
		}
		if (a.BoolVal == nil) != (b.BoolVal == nil) || a.BoolVal != nil && *a.BoolVal != *b.BoolVal {
			return false
		}
		if (a.BytesVal == nil) != (b.BytesVal == nil) || len(a.BytesVal) != len(b.BytesVal) {
			return false
		}
		for i := range a.BytesVal {
			if a.BytesVal[i] != b.BytesVal[i] {
				return false
			}
		}
		if len(a.Uint32Slice) != len(b.Uint32Slice) {
			return false
		}
		for _, x := range a.Uint32Slice {
			if !c6has(b.Uint32Slice, x) {
				return false
			}
		}
		if (a.CreatedBy == nil) != (b.CreatedBy == nil) || a.CreatedBy != nil && *a.CreatedBy != *b.CreatedBy {
			return false
		}
		return a.Key == b.Key && a.IsExist == b.IsExist
	}
	h.Assert(same(before, after), "response-after-reload-equals-response-before-close")
	// and the response before the close carries the request's type and value
	switch kind {
	case 0:
		h.Assert(before.Int8Val != nil && *before.Int8Val == *kv.Int8Val, "response-carries-request-value")
	case 3:
		h.Assert(before.Int64Val != nil && *before.Int64Val == *kv.Int64Val, "response-carries-request-value")
	case 5:
		h.Assert(before.Uint16Val != nil && *before.Uint16Val == *kv.Uint16Val, "response-carries-request-value")
	case 9:
		h.Assert(before.Float64Val != nil && *before.Float64Val == *kv.Float64Val, "response-carries-request-value")
	case 10:
		h.Assert(before.StringVal != nil && *before.StringVal == *kv.StringVal, "response-carries-request-value")
	case 11:
		h.Assert(before.BoolVal != nil && *before.BoolVal == *kv.BoolVal, "response-carries-request-value")
	case 12:
		h.Assert(before.BytesVal != nil && len(before.BytesVal) == len(kv.BytesVal), "response-carries-request-value")
	}
	h.Cover("end")
}
