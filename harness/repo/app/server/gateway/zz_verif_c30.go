//go:build verif

package gateway

import (
	"time"

	"github.com/hydraide/hydraide/app/core/hydra/swamp/treasure"
	"github.com/hydraide/hydraide/app/core/hydra/swamp/treasure/guard"
	"github.com/hydraide/hydraide/app/verifrt"
	hydrapb "github.com/hydraide/hydraide/sdk/go/hydraidego/v3/hydraidepbgo"
	"google.golang.org/protobuf/types/known/timestamppb"
)

// c30refs: reference instants of the expiry filter (UnixNano). The split of a Timestamp into
// seconds and nanoseconds multiplies by 10^9, which no back end decides for a symbolic operand,
// so the filter's reference is one of these representative instants (pre-epoch with and without
// a nanosecond part, the instants around the epoch, a present-day instant) while the record's
// own expiry stays fully symbolic.
var c30refs = []int64{-1_000_000_001, -1_000_000_000, -1, 1, 1_000_000_000, 1_700_000_000_123_456_789}

// VerifC30Filter: a record whose expiry is absent or a fully symbolic UnixNano is evaluated by
// the gateway's real native filter (evaluateNativeSingleFilter and, wrapped in a one-element AND
// group, evaluateNativeFilterGroup) with an ExpiredAt compare value and every relational
// operator: the verdict is exactly "the record has an expiry and it stands in the relation to
// the reference", a record without expiry matches IS_EMPTY only, and "expiry < now" as a filter
// agrees with the record's own IsExpired for the same clock reading.
func VerifC30Filter(h *verifrt.H) {
	e := h.Int64("expiry")
	t := treasure.New(nil)
	g := t.StartTreasureGuard(true, guard.BodyAuthID)
	t.BodySetKey(g, "k")
	t.SetContentInt64(g, 1)
	if h.Choose("hasExpiry", 2) == 1 {
		t.SetExpirationTime(g, time.Unix(0, e).UTC())
	} else {
		e = 0
	}
	t.ReleaseTreasureGuard(g)
	h.Assert(t.GetExpirationTime() == e, "expiry-stored-as-given")
	ref := c30refs[h.Choose("reference", len(c30refs))]
	ops := []hydrapb.Relational_Operator{
		hydrapb.Relational_EQUAL, hydrapb.Relational_NOT_EQUAL,
		hydrapb.Relational_GREATER_THAN, hydrapb.Relational_GREATER_THAN_OR_EQUAL,
		hydrapb.Relational_LESS_THAN, hydrapb.Relational_LESS_THAN_OR_EQUAL,
		hydrapb.Relational_IS_EMPTY, hydrapb.Relational_IS_NOT_EMPTY,
	}
	op := ops[h.Choose("operator", len(ops))]
	flt := &hydrapb.TreasureFilter{Operator: op, CompareValue: &hydrapb.TreasureFilter_ExpiredAtVal{ExpiredAtVal: timestamppb.New(time.Unix(0, ref).UTC())}}
	has := e != 0
	var want bool
	switch op {
	case hydrapb.Relational_EQUAL:
		want = has && e == ref
	case hydrapb.Relational_NOT_EQUAL:
		want = has && e != ref
	case hydrapb.Relational_GREATER_THAN:
		want = has && e > ref
	case hydrapb.Relational_GREATER_THAN_OR_EQUAL:
		want = has && e >= ref
	case hydrapb.Relational_LESS_THAN:
		want = has && e < ref
	case hydrapb.Relational_LESS_THAN_OR_EQUAL:
		want = has && e <= ref
	case hydrapb.Relational_IS_EMPTY:
		want = !has
	case hydrapb.Relational_IS_NOT_EMPTY:
		want = has
	}
	got := evaluateNativeSingleFilter(t, flt)
	h.Assert(got == want, "expiry-filter-matches-exactly-records-whose-expiry-stands-in-the-relation")
	grp := &hydrapb.FilterGroup{Logic: hydrapb.FilterLogic_AND, Filters: []*hydrapb.TreasureFilter{flt}}
	h.Assert(evaluateNativeFilterGroup(t, grp) == want, "expiry-filter-group-agrees")
	if op == hydrapb.Relational_LESS_THAN {
		// "expired before <instant>" asked through the filter and through the record itself
		// must agree whenever the clock reads an instant on the same side of the expiry
		n0 := time.Now().UTC().UnixNano()
		expired := t.IsExpired()
		n1 := time.Now().UTC().UnixNano()
		if n0 <= ref && ref <= n1 && !(e >= n0 && e < n1) {
			h.Assert(got == expired, "filter-and-IsExpired-agree")
		}
	}
	h.Cover("end")
}
