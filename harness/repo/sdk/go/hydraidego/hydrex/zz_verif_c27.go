//go:build verif

package hydrex

import (
	"context"

	"github.com/hydraide/hydraide/app/verifrt"
	"github.com/hydraide/hydraide/sdk/go/hydraidego/v3"
	"github.com/hydraide/hydraide/sdk/go/hydraidego/v3/name"
)

// c27store is a model of the documented catalog contract of the SDK store: per swamp an
// insertion-ordered key -> model list; SaveMany upserts by the model's key field, DeleteMany
// removes keys, Destroy drops the swamp, ReadMany iterates every record.
type c27rec struct {
	key    string
	value  string // CoreData.Value
	domain bool   // IndexedData record
}

type c27store struct {
	hydraidego.Hydraidego
	names []string
	recs  [][]c27rec
}

func (s *c27store) swamp(n name.Name, create bool) int {
	for i, x := range s.names {
		if x == n.Get() {
			return i
		}
	}
	if !create {
		return -1
	}
	s.names = append(s.names, n.Get())
	s.recs = append(s.recs, nil)
	return len(s.names) - 1
}

func (s *c27store) upsert(n name.Name, r c27rec) {
	i := s.swamp(n, true)
	for j := range s.recs[i] {
		if s.recs[i][j].key == r.key {
			s.recs[i][j] = r
			return
		}
	}
	s.recs[i] = append(s.recs[i], r)
}

func (s *c27store) del(n name.Name, key string) {
	i := s.swamp(n, false)
	if i < 0 {
		return
	}
	for j := range s.recs[i] {
		if s.recs[i][j].key == key {
			s.recs[i] = append(s.recs[i][:j:j], s.recs[i][j+1:]...)
			return
		}
	}
}

func (s *c27store) RegisterSwamp(ctx context.Context, r *hydraidego.RegisterSwampRequest) []error {
	return nil
}

func (s *c27store) CatalogReadMany(ctx context.Context, n name.Name, index *hydraidego.Index, model any, it hydraidego.CatalogReadManyIteratorFunc) error {
	i := s.swamp(n, false)
	if i < 0 {
		return nil
	}
	for _, r := range append([]c27rec{}, s.recs[i]...) {
		var err error
		switch model.(type) {
		case CoreData:
			err = it(&CoreData{Key: r.key, Value: r.value})
		case IndexedData:
			err = it(&IndexedData{Domain: r.key})
		}
		if err != nil {
			return err
		}
	}
	return nil
}

func (s *c27store) CatalogDeleteMany(ctx context.Context, n name.Name, keys []string, it hydraidego.CatalogDeleteIteratorFunc) error {
	for _, k := range keys {
		s.del(n, k)
	}
	return nil
}

func (s *c27store) CatalogDeleteManyFromMany(ctx context.Context, req []*hydraidego.CatalogDeleteManyFromManyRequest, it hydraidego.CatalogDeleteIteratorFunc) error {
	for _, r := range req {
		for _, k := range r.Keys {
			s.del(r.SwampName, k)
		}
	}
	return nil
}

func (s *c27store) save(n name.Name, models []any) {
	for _, m := range models {
		switch x := m.(type) {
		case *CoreData:
			s.upsert(n, c27rec{key: x.Key, value: x.Value})
		case *IndexedData:
			s.upsert(n, c27rec{key: x.Domain, domain: true})
		}
	}
}

func (s *c27store) CatalogSaveMany(ctx context.Context, n name.Name, models []any, it hydraidego.CatalogSaveManyIteratorFunc) error {
	s.save(n, models)
	return nil
}

func (s *c27store) CatalogSaveManyToMany(ctx context.Context, req []*hydraidego.CatalogManyToManyRequest, it hydraidego.CatalogSaveManyToManyIteratorFunc) error {
	for _, r := range req {
		s.save(r.SwampName, r.Models)
	}
	return nil
}

func (s *c27store) Destroy(ctx context.Context, n name.Name) error {
	if i := s.swamp(n, false); i >= 0 {
		s.recs[i] = nil
	}
	return nil
}

var c27domains = []string{"d1", "d2"}
var c27keys = []string{"k1", "k2"}

// VerifC27Hydrex: sequences of Save (with additions, removals and changed values) and Destroy
// over 2 domains and 2 keys with symbolic values, for every map iteration order: after every
// call, looking a key up returns exactly the domains whose current core data contains it, and
// reading a domain returns exactly its last saved items.
func VerifC27Hydrex(h *verifrt.H) {
	ctx := context.Background()
	st := &c27store{}
	hx := New(st)
	// reference: per domain, per key: present + value
	var present [2][2]bool
	var value [2][2]string
	n := h.Len("calls", 1, h.Param("maxCalls", 2))
	for c := 0; c < n; c++ {
		d := h.Choose("domain", 2)
		if h.Choose("destroy", 3) == 2 {
			hx.Destroy(ctx, "idx", c27domains[d])
			present[d] = [2]bool{}
		} else {
			items := map[string]*CoreData{}
			for k := 0; k < 2; k++ {
				if h.Choose("hasKey", 2) == 1 {
					v := h.String("value", 1)
					items[c27keys[k]] = &CoreData{Key: c27keys[k], Value: v}
					present[d][k], value[d][k] = true, v
				} else {
					present[d][k] = false
				}
			}
			h.MapOrderNondet(true)
			hx.Save(ctx, "idx", c27domains[d], items)
			h.MapOrderNondet(false)
		}
		for dd := 0; dd < 2; dd++ {
			got := hx.GetCoreData(ctx, "idx", c27domains[dd])
			cnt := 0
			for k := 0; k < 2; k++ {
				if !present[dd][k] {
					continue
				}
				cnt++
				found := false
				for _, g := range got {
					if g.Key == c27keys[k] {
						found = true
						h.Assert(g.Value == value[dd][k], "core-data-value-is-last-saved")
						h.ClearKnown()
					}
				}
				h.Assert(found, "core-data-has-saved-key")
			}
			h.Assert(len(got) == cnt, "core-data-has-nothing-else")
		}
		for k := 0; k < 2; k++ {
			got := hx.GetIndexData(ctx, "idx", c27keys[k])
			cnt := 0
			for dd := 0; dd < 2; dd++ {
				if !present[dd][k] {
					continue
				}
				cnt++
				found := false
				for _, g := range got {
					if g.Domain == c27domains[dd] {
						found = true
					}
				}
				h.Assert(found, "index-lists-domain-holding-the-key")
			}
			h.Assert(len(got) == cnt, "index-lists-no-other-domain")
		}
	}
	h.Cover("end")
}
