#!/bin/bash
# Runs the pinned baseline test suite on a scratch copy of /repo's working tree (guard off)
# and reports baseline tests that no longer pass. Usage: tools/baseline.sh [repo-dir]
SRC=${1:-/repo}
D=$(mktemp -d /tmp/bl.XXXXXX)
trap 'rm -rf "$D"' EXIT
rsync -a --exclude .git "$SRC"/ "$D"/
cd "$D" || exit 2
. /w/out/goenv.sh
export GOPROXY=off
for m in $(cat /w/out/gomods.txt); do
  MF=$(cd "$D/$m" && gomodflag)
  (cd "$D/$m" && go test $MF -json -vet=off -count=1 -timeout 25m ./... 2>/dev/null)
done > "$D/out.json"
python3 - "$D/out.json" <<'PY'
import json,sys
passed=set(); failed=set()
for l in open(sys.argv[1]):
    try: e=json.loads(l)
    except Exception: continue
    if e.get('Test') and e.get('Action') in ('pass','fail'):
        k=e['Package']+'::'+e['Test']
        (passed if e['Action']=='pass' else failed).add(k)
b=json.load(open('/root/.vp/BASELINE.json'))
missing=[t for t in b['stable_pass'] if t not in passed]
print("passed",len(passed),"failed",len(failed),"baseline",len(b['stable_pass']),"baseline-not-passing",len(missing))
for t in missing[:40]: print("  NOT PASSING:",t)
sys.exit(1 if missing else 0)
PY
