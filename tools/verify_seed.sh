#!/bin/bash
# verify_seed.sh <id> <seed-dir> <demo-file> <copy-to-rel> <go test args...>
# In a scratch worktree of /repo HEAD: demo must PASS without the patch, FAIL with it; build + touched-package tests must pass with it.
id=$1; sd=$2; demo=$3; dest=$4; shift 4
W=/tmp/vs/$id
rm -rf $W; git -C /repo worktree prune; git -C /repo worktree add -q --detach $W HEAD || exit 2
cd $W; export GOFLAGS= GOPROXY=off
mkdir -p $(dirname $dest); cp $sd/$demo $dest
echo "--- without patch:"; go test -vet=off -count=1 "$@" 2>&1 | tail -3; r0=${PIPESTATUS[0]}
git clean -fdXq app >/dev/null 2>&1
if ! git apply $sd/patch.diff; then echo "PATCH DOES NOT APPLY"; cd /; git -C /repo worktree remove --force $W; exit 3; fi
echo "--- build with patch:"; go build ./... 2>&1 | tail -3
echo "--- with patch:"; go test -vet=off -count=1 "$@" 2>&1 | tail -4; r1=${PIPESTATUS[0]}
git clean -fdXq app >/dev/null 2>&1
rm -f $dest
echo "--- package tests with patch (no demo):"; pk=$(git diff --name-only | xargs -n1 dirname | sort -u | sed 's|^|./|'); go test -vet=off -count=1 $pk 2>&1 | tail -4
echo "RESULT $id: demo without patch exit=$r0 (want 0), with patch exit=$r1 (want !=0)"
cd /; git -C /repo worktree remove --force $W
