#!/bin/bash
# runs every registered check (quick tier) on the current /repo tree; prints one line per check
cd /verif
for id in $(bin/verif list | awk '{print $1}' | sort); do
  s=$(date +%s); out=$(timeout ${TMO:-1800} bin/verif check $id --tier ${TIER:-quick} 2>&1); rc=$?
  echo "$id exit=$rc $(($(date +%s)-s))s $(echo "$out" | grep -c '^KNOWN-FINDING') known $(echo "$out" | grep -m1 '^BROKEN\|^VIOLATION' | cut -c1-200)"
done
