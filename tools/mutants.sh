#!/bin/bash
# Applies each seeded change to /repo, runs the quick check of its property, restores /repo.
# Usage: tools/mutants.sh [id-dir ...]   (default: all of seeded/*)
cd /verif
if [ -n "$(git -C /repo status --porcelain --untracked-files=no)" ]; then echo "refusing: /repo has uncommitted changes (they would be lost)"; exit 2; fi
dirs=("$@"); full=""; [ ${#dirs[@]} -eq 0 ] && { dirs=(seeded/*/); full=1; : > seeded/RESULTS.txt; echo "# tools/mutants.sh on /repo $(git -C /repo log --format=%h -1), /verif $(git log --format=%h -1), tier ${TIER:-quick}" >> seeded/RESULTS.txt; }
for d in "${dirs[@]}"; do
  d=${d%/}; [ -f "$d/patch.diff" ] || continue
  prop=$(python3 -c "import json,sys;print(json.load(open('$d/meta.json'))['property'])")
  if ! git -C /repo apply --check "$PWD/$d/patch.diff" 2>/dev/null; then
    if false; then :; else echo "$d ($prop): PATCH DOES NOT APPLY"; [ -n "$full" ] && echo "$d ($prop): PATCH DOES NOT APPLY (see meta.json)" >> seeded/RESULTS.txt; git -C /repo reset -q --hard HEAD; continue; fi
  else
    git -C /repo apply "$PWD/$d/patch.diff"
  fi
  if ! grep -q "\"$prop\"" engine/cmd/verif/defs.go; then echo "$d ($prop): no check yet"; git -C /repo reset -q --hard HEAD; continue; fi
  cp evidence/$prop.json /tmp/.mut_evidence_$prop.json 2>/dev/null   # the committed evidence describes the unchanged tree
  out=$(timeout 1200 bin/verif check $prop --tier ${TIER:-quick} 2>&1); rc=$?
  [ -f /tmp/.mut_evidence_$prop.json ] && mv /tmp/.mut_evidence_$prop.json evidence/$prop.json
  v=$(echo "$out" | grep -c "^VIOLATION")
  line="$d ($prop): exit=$rc violations=$v $(echo "$out" | grep -m1 "^  harness=" | cut -c1-260)"
  echo "$line"; [ -n "$full" ] && echo "$line" >> seeded/RESULTS.txt
  [ -n "$VERBOSE" ] && echo "$out" | tail -15
  git -C /repo reset -q --hard HEAD
done
git -C /repo status --short | head
