#!/bin/sh
# builds /verif/bin/verif offline
set -e
cd "$(dirname "$0")/engine"
export GOPROXY=off GOTOOLCHAIN=local GOFLAGS=-mod=mod GOSUMDB=off PATH=/opt/veriftools/go1.26.8/bin:$PATH
mkdir -p ../bin
go build -o ../bin/verif.new ./cmd/verif && mv ../bin/verif.new ../bin/verif
