#!/usr/bin/env python3
"""Regenerates MANIFEST.json from checks.json (claimed checks) + not_applicable.json."""
import json, os
root = os.path.dirname(os.path.abspath(__file__))
import subprocess
checks = json.loads(subprocess.check_output([os.path.join(root, "bin/verif"), "list", "--json"]))
checks = [c for c in checks if c.get("text")]
checks.sort(key=lambda c: c["property_id"])
na = json.load(open(os.path.join(root, "not_applicable.json")))
props = [json.loads(l) for l in open(os.path.join(root, "properties.jsonl"))]
ids = [p["id"] for p in props]
claimed = {c["property_id"] for c in checks}
out = {
    "version": 1,
    "setup_cmd": "./build.sh",
    "hooks": {
        "guard": "verif",
        "enable": "harnesses and the verifrt runtime are injected by go/packages overlay and `go build -tags verif -overlay` at check time; nothing tagged lives in /repo",
        "baseline_off_cmd": "cd /repo && go test -vet=off -count=1 -timeout 25m ./... && cd sdk/go/hydraidego && go test -vet=off -count=1 -timeout 25m ./...",
        "source_commits": [],
        "add_only": True,
    },
    "engines": [{
        "name": "gosym", "path": "/verif/engine",
        "serves_properties": sorted(claimed),
        "kind_free_text": "own symbolic interpreter for go/ssa (x/tools v0.50.0) of /repo's current source: path-by-path symbolic execution with decision trails, SMT (z3 5.1.0 over a pipe; z3 4.8.12/cvc5 for cross-checks), FS/crash/fault model, cooperative scheduler with preemption bounding, native replay through overlay builds",
    }],
    "checks": [],
    "notes": "All checks: exit 0 = every obligation on every explored path discharged (unsat) within the bounds written to the evidence file; exit 1 + VIOLATION line = counter-example reproduced natively and not in known_findings.json; exit 2 = the check itself is unusable (truncation, unsupported instruction, inconclusive solver answer, translator mismatch, vacuity).",
    "not_applicable": [],
}
for c in checks:
    pid = c["property_id"]
    out["checks"].append({
        "property_id": pid,
        "quick_cmd": f"bin/verif check {pid} --tier quick",
        "thorough_cmd": f"bin/verif check {pid} --tier thorough",
        "evidence_file": f"/verif/evidence/{pid}.json",
        "replay_cmd_template": "bin/verif replay {path}",
        "engine": "gosym",
        "level_claimed": {"category": "model_checking", "text": c["text"], "design_ref": f"DESIGN.md Appendix G {pid} (as built); §5 {pid} (design)"},
        "level_note": c["note"] or "trusted: go/ssa, the interpreter and its listed stubs/intrinsics, the SMT solver; nothing beyond the bounds written to the evidence file",
        "technique": c.get("technique", "bounded symbolic execution of the real go/ssa code + SMT (z3), counter-examples replayed natively"),
    })
for pid in ids:
    if pid not in claimed:
        reason = na.get(pid)
        if not reason:
            raise SystemExit(f"property {pid} neither claimed nor in not_applicable.json")
        out["not_applicable"].append({"property_id": pid, "reason": reason})
json.dump(out, open(os.path.join(root, "MANIFEST.json"), "w"), indent=1)
print("claimed", sorted(claimed), "n/a", len(out["not_applicable"]))
