package sym

import (
	"fmt"
	"go/types"
	"strings"

	"golang.org/x/tools/go/ssa"
)

// Values (boxed in `value`):
//
//	*Term                 bool, all integer kinds, float32/64 (concrete = constant term)
//	string | symstr       strings (symstr has >=1 symbolic byte; each element a BV8 term)
//	[]value               slices (Go aliasing gives backing-array sharing)
//	array, structure, tuple
//	*value                pointers
//	iface                 interfaces
//	*hmap                 maps
//	*channel              channels
//	*ssa.Function, *ssa.Builtin, *closure   functions
//	timeVal               time.Time (opaque model)
//	*native               engine-side opaque objects (files, timers, ...)
type value = any

type tuple []value
type array []value
type structure []value
type symstr []*Term

type iface struct {
	t types.Type
	v value
}

type closure struct {
	Fn  *ssa.Function
	Env []value
}

type bad struct{}

// timeVal models time.Time: unix nanoseconds as a 64-bit term; isZero marks the zero Time.
type timeVal struct {
	ns     *Term
	isZero bool
}

// native wraps engine-side objects handed to interpreted code as opaque pointers.
type native struct {
	kind string
	obj  any
}

// ---------- type helpers ----------

func deref(t types.Type) types.Type {
	if p, ok := t.Underlying().(*types.Pointer); ok {
		return p.Elem()
	}
	panic(fmt.Sprintf("deref of non-pointer %v", t))
}

func isNamed(t types.Type, pkg, name string) bool {
	t = types.Unalias(t)
	n, ok := t.(*types.Named)
	if !ok {
		return false
	}
	o := n.Obj()
	return o.Name() == name && o.Pkg() != nil && o.Pkg().Path() == pkg
}

func basicInfo(t types.Type) (kind Kind, w uint8, signed bool, ok bool) {
	b, isb := t.Underlying().(*types.Basic)
	if !isb {
		return
	}
	ok = true
	switch b.Kind() {
	case types.Bool, types.UntypedBool:
		kind = KBool
	case types.Int, types.Int64, types.UntypedInt:
		kind, w, signed = KBV, 64, true
	case types.Int8:
		kind, w, signed = KBV, 8, true
	case types.Int16:
		kind, w, signed = KBV, 16, true
	case types.Int32, types.UntypedRune:
		kind, w, signed = KBV, 32, true
	case types.Uint, types.Uint64, types.Uintptr:
		kind, w = KBV, 64
	case types.Uint8:
		kind, w = KBV, 8
	case types.Uint16:
		kind, w = KBV, 16
	case types.Uint32:
		kind, w = KBV, 32
	case types.Float32:
		kind = KF32
	case types.Float64, types.UntypedFloat:
		kind = KF64
	default:
		ok = false
	}
	return
}

func isString(t types.Type) bool {
	b, ok := t.Underlying().(*types.Basic)
	return ok && b.Info()&types.IsString != 0
}

func zero(t types.Type) value {
	if isNamed(t, "time", "Time") {
		return timeVal{ns: BV(64, 0), isZero: true}
	}
	switch u := t.Underlying().(type) {
	case *types.Basic:
		if u.Kind() == types.UnsafePointer {
			return (*value)(nil)
		}
		if u.Info()&types.IsString != 0 {
			return ""
		}
		if u.Kind() == types.UntypedNil {
			panic("zero of untyped nil")
		}
		k, w, _, ok := basicInfo(u)
		if !ok {
			panic(unsupported(fmt.Sprintf("zero of basic type %v", u)))
		}
		switch k {
		case KBool:
			return falseT
		case KBV:
			return BV(w, 0)
		case KF32:
			return F32(0)
		case KF64:
			return F64(0)
		}
	case *types.Pointer:
		return (*value)(nil)
	case *types.Array:
		a := make(array, u.Len())
		for i := range a {
			a[i] = zero(u.Elem())
		}
		return a
	case *types.Struct:
		s := make(structure, u.NumFields())
		for i := range s {
			s[i] = zero(u.Field(i).Type())
		}
		return s
	case *types.Tuple:
		if u.Len() == 1 {
			return zero(u.At(0).Type())
		}
		s := make(tuple, u.Len())
		for i := range s {
			s[i] = zero(u.At(i).Type())
		}
		return s
	case *types.Chan:
		return (*channel)(nil)
	case *types.Map:
		return (*hmap)(nil)
	case *types.Signature:
		return (*ssa.Function)(nil)
	case *types.Interface:
		return iface{}
	case *types.Slice:
		return []value(nil)
	case *types.TypeParam:
		panic(unsupported("zero of type parameter"))
	}
	panic(fmt.Sprintf("zero: unexpected type %v", t))
}

// copyVal returns a deep copy of aggregates (arrays/structs are values in Go).
func copyVal(v value) value {
	switch v := v.(type) {
	case array:
		a := make(array, len(v))
		for i := range v {
			a[i] = copyVal(v[i])
		}
		return a
	case structure:
		a := make(structure, len(v))
		for i := range v {
			a[i] = copyVal(v[i])
		}
		return a
	}
	return v
}

// ---------- strings ----------

func strLen(v value) int {
	switch s := v.(type) {
	case string:
		return len(s)
	case symstr:
		return len(s)
	}
	panic(fmt.Sprintf("strLen of %T", v))
}

func strByte(v value, i int) *Term {
	switch s := v.(type) {
	case string:
		return BV(8, uint64(s[i]))
	case symstr:
		return s[i]
	}
	panic("strByte")
}

func strBytes(v value) []*Term {
	switch s := v.(type) {
	case string:
		r := make([]*Term, len(s))
		for i := 0; i < len(s); i++ {
			r[i] = BV(8, uint64(s[i]))
		}
		return r
	case symstr:
		return s
	}
	panic(fmt.Sprintf("strBytes of %T", v))
}

// mkStr normalises a byte-term list into string (all concrete) or symstr.
func mkStr(bs []*Term) value {
	allc := true
	for _, b := range bs {
		if !b.IsConst() {
			allc = false
			break
		}
	}
	if allc {
		buf := make([]byte, len(bs))
		for i, b := range bs {
			buf[i] = byte(b.K)
		}
		return string(buf)
	}
	return symstr(append([]*Term(nil), bs...))
}

func strSlice(v value, lo, hi int) value {
	switch s := v.(type) {
	case string:
		return s[lo:hi]
	case symstr:
		return mkStr(s[lo:hi])
	}
	panic("strSlice")
}

func strConcat(a, b value) value {
	if x, ok := a.(string); ok {
		if y, ok := b.(string); ok {
			return x + y
		}
	}
	return mkStr(append(append([]*Term{}, strBytes(a)...), strBytes(b)...))
}

// ---------- debug printing ----------

func toString(v value) string {
	var sb strings.Builder
	writeValue(&sb, v, 0)
	return sb.String()
}

func writeValue(sb *strings.Builder, v value, depth int) {
	if depth > 4 {
		sb.WriteString("…")
		return
	}
	switch v := v.(type) {
	case nil:
		sb.WriteString("<nil>")
	case *Term:
		if v.IsConst() {
			switch v.Kind {
			case KBool:
				fmt.Fprintf(sb, "%v", v.K != 0)
			case KBV:
				fmt.Fprintf(sb, "%d", v.K)
			default:
				fmt.Fprintf(sb, "%g", v.F64Val())
			}
		} else {
			sb.WriteString(v.strDepth(3))
		}
	case string:
		fmt.Fprintf(sb, "%q", v)
	case symstr:
		sb.WriteString("symstr[")
		for i, b := range v {
			if i > 0 {
				sb.WriteString(" ")
			}
			writeValue(sb, b, depth+1)
		}
		sb.WriteString("]")
	case []value:
		fmt.Fprintf(sb, "slice(len=%d)[", len(v))
		for i, e := range v {
			if i > 8 {
				sb.WriteString(" …")
				break
			}
			if i > 0 {
				sb.WriteString(" ")
			}
			writeValue(sb, e, depth+1)
		}
		sb.WriteString("]")
	case array:
		sb.WriteString("array[")
		for i, e := range v {
			if i > 8 {
				sb.WriteString(" …")
				break
			}
			if i > 0 {
				sb.WriteString(" ")
			}
			writeValue(sb, e, depth+1)
		}
		sb.WriteString("]")
	case structure:
		sb.WriteString("{")
		for i, e := range v {
			if i > 0 {
				sb.WriteString(" ")
			}
			writeValue(sb, e, depth+1)
		}
		sb.WriteString("}")
	case tuple:
		sb.WriteString("(")
		for i, e := range v {
			if i > 0 {
				sb.WriteString(", ")
			}
			writeValue(sb, e, depth+1)
		}
		sb.WriteString(")")
	case iface:
		if v.t == nil {
			sb.WriteString("nil-iface")
		} else {
			fmt.Fprintf(sb, "iface(%v:", v.t)
			writeValue(sb, v.v, depth+1)
			sb.WriteString(")")
		}
	case *value:
		if v == nil {
			sb.WriteString("nil-ptr")
		} else {
			sb.WriteString("&")
			writeValue(sb, *v, depth+1)
		}
	case *hmap:
		if v == nil {
			sb.WriteString("nil-map")
		} else {
			fmt.Fprintf(sb, "map(len=%d)", len(v.ents))
		}
	case *closure:
		fmt.Fprintf(sb, "closure(%s)", v.Fn)
	case *ssa.Function:
		if v == nil {
			sb.WriteString("nil-func")
		} else {
			fmt.Fprintf(sb, "func(%s)", v)
		}
	case timeVal:
		if v.isZero {
			sb.WriteString("time(zero)")
		} else {
			sb.WriteString("time(")
			writeValue(sb, v.ns, depth+1)
			sb.WriteString(")")
		}
	default:
		fmt.Fprintf(sb, "%T", v)
	}
}
