package sym

import (
	"fmt"
	"sort"
	"strings"

	"golang.org/x/tools/go/ssa"
)

type Config struct {
	MaxSteps       int
	LoopBound      int
	MaxAlloc       int // max elements of a single make() the interpreter materialises
	MapOrderNondet bool
	MapOrderMax    int
	Preemptions    int
	Race           bool
	MaxDecisions   int
	BgLowPrio      bool           // goroutines spawned by the code under test and timers run only when no harness thread can
	QuietPkgs      []string       // no preemption while a function of these packages (import path prefixes) is on the stack
	Params         map[string]int // harness-visible tier parameters (h.Param)
}

func DefaultConfig() Config {
	return Config{MaxSteps: 3_000_000, LoopBound: 5000, MaxAlloc: 1 << 20, MapOrderMax: 3, Preemptions: 2, MaxDecisions: 4000, Params: map[string]int{}}
}

// TrailEnt is one recorded decision.
type TrailEnt struct {
	C    int32  `json:"c"`           // choice
	V    uint64 `json:"v,omitempty"` // candidate value for concretize decisions
	Kind string `json:"k,omitempty"`
}

type inputRec struct {
	Fn     string // IntRange | Bytes | Len | Choose | Bool | ...
	Name   string
	Terms  []*Term // the symbolic terms (one per byte for Bytes)
	Conc   uint64  // for concrete-per-path results (Len, Choose)
	IsConc bool
	W      uint8
}

type knownRegion struct {
	id     string
	prefix string
	cond   *Term
}

type Violation struct {
	Property string            `json:"property,omitempty"`
	Harness  string            `json:"harness"`
	Kind     string            `json:"kind"`
	Label    string            `json:"label"`
	Msg      string            `json:"msg"`
	Known    string            `json:"known,omitempty"`
	Inputs   []ReplayInput     `json:"inputs"`
	Trail    []TrailEnt        `json:"trail"`
	Stack    []string          `json:"stack,omitempty"`
	Schedule []string          `json:"schedule,omitempty"`
	Files    map[string]string `json:"files,omitempty"`
	Observed []string          `json:"observed,omitempty"`
	Extra    map[string]any    `json:"extra,omitempty"`
}

type ReplayInput struct {
	Fn   string `json:"fn"`
	Name string `json:"name"`
	Val  uint64 `json:"val"`
	Hex  string `json:"hex,omitempty"`
}

// Run is one symbolic execution of a harness along one decision trail.
type Run struct {
	eng          *Engine
	w            *Worker
	cfg          Config
	st           *Store
	sol          *Solver
	prefix       []TrailEnt
	trail        []TrailEnt
	pos          int
	alts         [][]TrailEnt // alternatives discovered on this run
	pc           []*Term
	steps        int
	inputs       []inputRec
	known        []knownRegion
	viols        []Violation
	covers       map[string]bool
	asserts      map[string]int
	observes     []obsRec
	inconclusive int
	decCount     map[string]int
	harness      string

	globals  map[*ssa.Global]*value
	initDone map[*ssa.Package]bool

	// scheduler
	threads    []*thread
	cur        *thread
	killCh     chan struct{}
	doneCh     chan struct{}
	outcome    *abortPath
	preempt    int
	events     []*envEvent
	quiesce    []value // callbacks
	schedLog   []string
	nextTid    int
	schedEpoch int
	clock      *Term // last time.Now value (monotone)
	nowCount   int

	fs            *fsModel
	race          *raceState
	uuidN         int
	gobTab        []gobBlob
	stubs         map[string]value // callee name -> harness function value (stub redirection)
	splitCache    map[*Term][2]*Term
	unsplit       map[[2]*Term]*Term
	timerTab      map[*value]*timerState
	quiesceRan    bool
	noteAssume    int
	sizeClassUsed int
	crcApps       []crcApp
	xxhApps       []crcApp
}

type obsRec struct {
	key  string
	term value
}

func (r *Run) addPC(t *Term) {
	if t.IsConst() {
		return
	}
	r.pc = append(r.pc, t)
	r.sol.Assert(t)
}

func (r *Run) lit(c *Term, b bool) *Term {
	if b {
		return c
	}
	return r.st.Not(c)
}

func (r *Run) decide(c *Term) bool { return r.decideKind(c, "if") }

// decideKind resolves a possibly symbolic condition, forking when both sides are feasible.
func (r *Run) decideKind(c *Term, kind string) bool {
	if c.IsConst() {
		return c.K != 0
	}
	if r.pos < len(r.prefix) {
		d := r.prefix[r.pos]
		r.pos++
		r.trail = append(r.trail, d)
		b := d.C == 1
		r.addPC(r.lit(c, b))
		return b
	}
	if len(r.trail) >= r.cfg.MaxDecisions {
		panic(abortPath{"truncated", fmt.Sprintf("decision bound %d exceeded", r.cfg.MaxDecisions)})
	}
	r.decCount[kind]++
	resT, _ := r.sol.Check([]*Term{c}, nil)
	var resF Result
	if resT == Unsat {
		resF = Sat // PC is feasible by invariant
	} else {
		resF, _ = r.sol.Check([]*Term{r.st.Not(c)}, nil)
	}
	if resT == Unknown || resF == Unknown {
		r.inconclusive++
	}
	tOK, fOK := resT != Unsat, resF != Unsat
	if !tOK && !fOK {
		panic(abortPath{"infeasible", "both branches unsat"})
	}
	choice := tOK
	if tOK && fOK {
		alt := append(append([]TrailEnt(nil), r.trail...), TrailEnt{C: 0, Kind: kind})
		r.alts = append(r.alts, alt)
	}
	c32 := int32(0)
	if choice {
		c32 = 1
	}
	r.trail = append(r.trail, TrailEnt{C: c32, Kind: kind})
	r.pos++
	r.addPC(r.lit(c, choice))
	return choice
}

// choose is an n-way nondeterministic choice (harness Choose/Len, scheduler, map order, crash point ...).
func (r *Run) choose(n int, kind string) int {
	if n <= 1 {
		return 0
	}
	if r.pos < len(r.prefix) {
		d := r.prefix[r.pos]
		r.pos++
		r.trail = append(r.trail, d)
		if int(d.C) >= n {
			panic(fmt.Sprintf("trail replay mismatch: choice %d of %d (%s vs recorded %s)", d.C, n, kind, d.Kind))
		}
		return int(d.C)
	}
	if len(r.trail) >= r.cfg.MaxDecisions {
		panic(abortPath{"truncated", fmt.Sprintf("decision bound %d exceeded", r.cfg.MaxDecisions)})
	}
	r.decCount[kind]++
	for i := n - 1; i >= 1; i-- {
		alt := append(append([]TrailEnt(nil), r.trail...), TrailEnt{C: int32(i), Kind: kind})
		r.alts = append(r.alts, alt)
	}
	r.trail = append(r.trail, TrailEnt{C: 0, Kind: kind})
	r.pos++
	return 0
}

// concretize forks over the feasible concrete values of t (expected < n, n==0: unbounded).
func (r *Run) concretize(t *Term, n uint64, what string) uint64 {
	if t.IsConst() {
		return t.K
	}
	for iter := 0; ; iter++ {
		if iter > 4096 {
			panic(abortPath{"truncated", "concretize: too many candidate values for " + what})
		}
		if r.pos < len(r.prefix) {
			d := r.prefix[r.pos]
			r.pos++
			r.trail = append(r.trail, d)
			eq := r.st.Eq(t, BV(t.W, d.V))
			if d.C == 1 {
				r.addPC(eq)
				return d.V
			}
			r.addPC(r.st.Not(eq))
			continue
		}
		if len(r.trail) >= r.cfg.MaxDecisions {
			panic(abortPath{"truncated", fmt.Sprintf("decision bound %d exceeded", r.cfg.MaxDecisions)})
		}
		res, vals := r.sol.Check(nil, []*Term{t})
		if res != Sat {
			if res == Unknown {
				r.inconclusive++
			}
			panic(abortPath{"infeasible", "concretize: no value for " + what})
		}
		v := vals[0]
		eq := r.st.Eq(t, BV(t.W, v))
		// is another value possible?
		resO, _ := r.sol.Check([]*Term{r.st.Not(eq)}, nil)
		if resO == Unknown {
			r.inconclusive++
		}
		r.decCount["concretize:"+what]++
		if resO != Unsat {
			alt := append(append([]TrailEnt(nil), r.trail...), TrailEnt{C: 0, V: v, Kind: "conc"})
			r.alts = append(r.alts, alt)
		}
		r.trail = append(r.trail, TrailEnt{C: 1, V: v, Kind: "conc"})
		r.pos++
		r.addPC(eq)
		return v
	}
}

func (r *Run) concreteInt(t *Term, what string) int64 {
	if t.IsConst() {
		return t.I64()
	}
	return sext(r.concretize(t, 0, what), t.W)
}

// concreteSize concretizes a make() size: negative side panics as in Go.
func (r *Run) concreteSize(t *Term, what string) int {
	if t.IsConst() {
		v := t.I64()
		if v < 0 {
			panic(rtPanic("makeslice: len out of range"))
		}
		return int(v)
	}
	if !r.decide(r.st.BvCmp(OBvSle, BV(64, 0), t)) {
		panic(rtPanic("makeslice: len out of range"))
	}
	if cls, ok := r.cfg.Params["allocClassAbove"]; ok {
		// size classes: every size above cls behaves alike for the harness (the only consumer is
		// a ReadFull that must fail because the file is shorter): one representative of cls+1 cells
		// stands for the class while the path condition keeps the real constraint size > cls.
		if !r.decide(r.st.BvCmp(OBvSle, t, BV(64, uint64(cls)))) {
			r.sizeClassUsed++
			return cls + 1
		}
		return int(r.concretize(t, 0, what))
	}
	if !r.decide(r.st.BvCmp(OBvSle, t, BV(64, uint64(r.cfg.MaxAlloc)))) {
		// larger than anything the interpreter materialises
		r.allocTooLarge(nil, r.cfg.MaxAlloc+1, nil)
	}
	return int(r.concretize(t, 0, what))
}

// allocBound is set by harnesses (h.AllocBound): max allowed elements for symbolic-size allocations.
func (r *Run) allocObligation(fr *frame, size *Term, instr ssa.Instruction) {
	b, ok := r.cfg.Params["allocBound"]
	if !ok {
		return
	}
	within := r.st.BvCmp(OBvSle, size, BV(64, uint64(b)))
	r.observes = append(r.observes, obsRec{key: "alloc.size", term: size})
	defer func() { r.observes = r.observes[:len(r.observes)-1] }()
	if r.checkObligation(within, "alloc", "allocation-bounded", fmt.Sprintf("make() size not bounded by %d at %s", b, posStr(fr, instr.Pos())), fr) {
		r.addPC(within)
		if res, _ := r.sol.Check(nil, nil); res == Unsat {
			panic(abortPath{"infeasible", "all allocations over bound"})
		}
	}
}

func (r *Run) allocTooLarge(fr *frame, n int, instr ssa.Instruction) {
	if _, ok := r.cfg.Params["allocBound"]; ok {
		panic(abortPath{"done", "allocation over bound already reported"})
	}
	panic(abortPath{"truncated", fmt.Sprintf("allocation of %d elements exceeds interpreter limit", n)})
}

// ---------- violations ----------

func (r *Run) modelInputs(vals []uint64, terms []*Term) []ReplayInput {
	m := map[*Term]uint64{}
	for i, t := range terms {
		m[t] = vals[i]
	}
	var out []ReplayInput
	for _, in := range r.inputs {
		ri := ReplayInput{Fn: in.Fn, Name: in.Name}
		if in.IsConc {
			ri.Val = in.Conc
		} else if in.Fn == "Bytes" {
			var sb strings.Builder
			for _, t := range in.Terms {
				v := t.K
				if !t.IsConst() {
					v = m[t]
				}
				fmt.Fprintf(&sb, "%02x", v&0xff)
			}
			ri.Hex = sb.String()
		} else {
			t := in.Terms[0]
			if t.IsConst() {
				ri.Val = t.K
			} else {
				ri.Val = m[t]
			}
		}
		out = append(out, ri)
	}
	return out
}

func (r *Run) inputTerms() []*Term {
	var ts []*Term
	seen := map[*Term]bool{}
	for _, in := range r.inputs {
		for _, t := range in.Terms {
			if !t.IsConst() && !seen[t] {
				seen[t] = true
				ts = append(ts, t)
			}
		}
	}
	for _, o := range r.observes {
		if t, ok := o.term.(*Term); ok && !t.IsConst() && !seen[t] {
			seen[t] = true
			ts = append(ts, t)
		}
	}
	return ts
}

// violation records a failure reachable under PC ∧ extra. Returns after recording;
// known-finding regions split the report.
func (r *Run) violation(kind, label, msg string, extra []*Term, fr *frame) {
	// applicable regions
	var regs []knownRegion
	for _, k := range r.known {
		if strings.HasPrefix(label, k.prefix) || strings.HasPrefix(kind, k.prefix) {
			regs = append(regs, k)
		}
	}
	terms := r.inputTerms()
	mk := func(known string, vals []uint64) {
		v := Violation{Harness: r.harness, Kind: kind, Label: label, Msg: msg, Known: known,
			Inputs: r.modelInputs(vals, terms), Trail: append([]TrailEnt(nil), r.trail...),
			Schedule: append([]string(nil), r.schedLog...)}
		if fr != nil {
			v.Stack = stackTrace(fr)
		}
		m := map[*Term]uint64{}
		for i, t := range terms {
			m[t] = vals[i]
		}
		for _, o := range r.observes {
			v.Observed = append(v.Observed, o.key+"="+obsString(o.term, m))
		}
		if r.fs != nil {
			v.Files = r.fs.dump(r, func(t *Term) (uint64, bool) { x, ok := m[t]; return x, ok })
			if len(r.fs.crashNote) > 0 {
				v.Extra = map[string]any{"crash": r.fs.crashNote, "crashPlan": r.fs.crashPlan}
			}
		}
		r.viols = append(r.viols, v)
	}
	notRegs := append([]*Term(nil), extra...)
	for _, k := range regs {
		res, vals := r.sol.Check(append(append([]*Term(nil), extra...), k.cond), terms)
		if res == Sat {
			mk(k.id, vals)
		} else if res == Unknown {
			r.inconclusive++
		}
		notRegs = append(notRegs, r.st.Not(k.cond))
	}
	res, vals := r.sol.Check(notRegs, terms)
	switch res {
	case Sat:
		mk("", vals)
	case Unknown:
		r.inconclusive++
	}
}

func obsString(v value, m map[*Term]uint64) string {
	switch v := v.(type) {
	case *Term:
		if v.IsConst() {
			return fmt.Sprintf("%d", v.K)
		}
		if x, ok := m[v]; ok {
			return fmt.Sprintf("%d", x)
		}
		return "?"
	case string:
		return fmt.Sprintf("%q", v)
	}
	return toString(v)
}

// checkObligation checks PC ⇒ cond; on failure records a violation. Returns true if the
// caller should continue under cond (i.e. cond was symbolic and is being assumed).
func (r *Run) checkObligation(cond *Term, kind, label, msg string, fr *frame) bool {
	r.asserts[label]++
	if cond.IsConst() {
		if cond.K == 0 {
			r.violation(kind, label, msg, nil, fr)
			panic(abortPath{"done", "concrete assertion failure: " + label})
		}
		return false
	}
	// trail-recorded outcome to avoid re-reporting on re-execution
	if r.pos < len(r.prefix) {
		d := r.prefix[r.pos]
		r.pos++
		r.trail = append(r.trail, d)
		return true
	}
	res, _ := r.sol.Check([]*Term{r.st.Not(cond)}, nil)
	c := int32(0)
	switch res {
	case Sat:
		r.violation(kind, label, msg, []*Term{r.st.Not(cond)}, fr)
		c = 1
	case Unknown:
		r.inconclusive++
	}
	r.decCount["assert"]++
	r.trail = append(r.trail, TrailEnt{C: c, Kind: "assert"})
	r.pos++
	return true
}

// assertCond is h.Assert.
func (r *Run) assertCond(cond *Term, label string, fr *frame) {
	if r.checkObligation(cond, "assert", label, "assertion failed: "+label, fr) {
		r.addPC(cond)
		last := r.trail[len(r.trail)-1]
		if last.C == 1 {
			// a violation was reported: the remaining path must still be feasible
			if res, _ := r.sol.Check(nil, nil); res == Unsat {
				panic(abortPath{"done", "assertion violated on every continuation"})
			}
		}
	}
}

func (r *Run) assume(cond *Term) {
	if cond.IsConst() {
		if cond.K == 0 {
			panic(abortPath{"assumed-false", ""})
		}
		return
	}
	r.addPC(cond)
	if r.pos < len(r.prefix) {
		// feasibility was established when this prefix was created
		return
	}
	res, _ := r.sol.Check(nil, nil)
	if res == Unsat {
		panic(abortPath{"assumed-false", ""})
	}
	if res == Unknown {
		r.inconclusive++
	}
}

// ---------- globals and package initialisation ----------

func (r *Run) global(g *ssa.Global) *value {
	perRun := r.eng.perRunPkg(g.Pkg)
	var store map[*ssa.Global]*value
	if perRun {
		store = r.globals
	} else {
		store = r.w.shared
	}
	if c, ok := store[g]; ok {
		return c
	}
	c := new(value)
	*c = zero(deref(g.Type()))
	store[g] = c
	if !strings.HasPrefix(g.Name(), "init$guard") {
		r.ensureInit(g.Pkg)
	}
	if r.w.uninit[g] && !r.w.fixedUp[g] {
		if r.w.uninitRead == nil {
			r.w.uninitRead = map[string]bool{}
		}
		r.w.uninitRead[g.String()] = true
	}
	return c
}

func (r *Run) ensureInit(pkg *ssa.Package) {
	perRun := r.eng.perRunPkg(pkg)
	done := r.w.sharedInit
	if perRun {
		done = r.initDone
	}
	if done[pkg] {
		return
	}
	done[pkg] = true
	pol := r.eng.initPolicy(pkg.Pkg.Path())
	if pol == "skip" {
		r.initConstStores(pkg)
		r.initFixups(pkg)
		return
	}
	r.eng.buildPkg(pkg)
	initFn := pkg.Func("init")
	if initFn == nil || initFn.Blocks == nil {
		return
	}
	th := r.cur
	if th == nil {
		th = &thread{run: r, id: -1}
	}
	saveSteps := r.steps
	func() {
		defer func() {
			if p := recover(); p != nil {
				if pol == "tolerant" {
					r.w.noteInitSkip(pkg.Pkg.Path(), fmt.Sprint(p))
					return
				}
				if ap, ok := p.(abortPath); ok {
					ap.msg = "in init of " + pkg.Pkg.Path() + ": " + ap.msg
					panic(ap)
				}
				panic(fmt.Sprintf("init of %s: %v", pkg.Pkg.Path(), p))
			}
		}()
		th.inInit++
		defer func() { th.inInit-- }()
		if pol == "tolerant" {
			runInitTolerant(th, initFn, pkg)
			return
		}
		runInit(th, initFn)
	}()
	if !perRun {
		r.steps = saveSteps
	}
}

// runInit interprets a package initializer, bypassing the intrinsic/ensureInit hooks for itself.
func runInit(th *thread, fn *ssa.Function) {
	fr := &frame{th: th, fn: fn}
	fr.env = make(map[ssa.Value]value)
	fr.block = fn.Blocks[0]
	fr.locals = make([]value, len(fn.Locals))
	for i, l := range fn.Locals {
		fr.locals[i] = zero(deref(l.Type()))
		fr.env[l] = &fr.locals[i]
	}
	for fr.block != nil {
		runFrame(fr)
	}
}

// runInitTolerant interprets a library package initialiser instruction by instruction. An
// instruction the interpreter cannot execute (reflection, unsafe, ...) is skipped together with
// everything that depends on its result; a package-level variable whose initialising store is
// skipped is remembered, and touching it later fails the check (it would read as zero).
func runInitTolerant(th *thread, fn *ssa.Function, pkg *ssa.Package) {
	r := th.run
	fr := &frame{th: th, fn: fn}
	fr.env = make(map[ssa.Value]value)
	fr.block = fn.Blocks[0]
	fr.locals = make([]value, len(fn.Locals))
	for i, l := range fn.Locals {
		fr.locals[i] = zero(deref(l.Type()))
		fr.env[l] = &fr.locals[i]
	}
	failed := map[ssa.Value]bool{}
	try := func(instr ssa.Instruction) (c continuation, ok bool, why string) {
		defer func() {
			if p := recover(); p != nil {
				if ap, isAbort := p.(abortPath); isAbort && ap.kind != "unsupported" && ap.kind != "internal" {
					panic(p)
				}
				ok, why = false, fmt.Sprint(p)
			}
		}()
		return visitInstr(fr, instr), true, ""
	}
	giveUp := func(from *ssa.BasicBlock, idx int) {
		// control flow depends on a skipped value: every later store into a global is lost
		seen := false
		for _, b := range fn.Blocks {
			for i, ins := range b.Instrs {
				if b == from && i == idx {
					seen = true
				}
				if !seen {
					continue
				}
				if st, ok := ins.(*ssa.Store); ok {
					if g, ok := st.Addr.(*ssa.Global); ok {
						r.w.noteUninit(g)
					}
				}
			}
		}
	}
	for fr.block != nil {
		blk := fr.block
		instrs := executePhis(fr)
		jumped := false
		base := len(blk.Instrs) - len(instrs)
		for i, instr := range instrs {
			dep := false
			var ops []*ssa.Value
			for _, op := range instr.Operands(ops) {
				if op != nil && *op != nil && failed[*op] {
					dep = true
				}
			}
			why := "depends on a skipped instruction"
			if !dep {
				c, ok, w := try(instr)
				if ok {
					if c == kReturn {
						return
					}
					if c == kJump {
						jumped = true
						break
					}
					continue
				}
				why = w
			}
			if len(why) > 160 {
				why = why[:160]
			}
			r.w.noteInitSkip(pkg.Pkg.Path(), fmt.Sprintf("skipped %s: %s", instr.String(), why))
			if v, ok := instr.(ssa.Value); ok {
				failed[v] = true
			}
			switch ins := instr.(type) {
			case *ssa.Store:
				if g, ok := ins.Addr.(*ssa.Global); ok {
					r.w.noteUninit(g)
				}
			case *ssa.If, *ssa.Jump, *ssa.Return, *ssa.Panic:
				giveUp(blk, base+i)
				return
			}
		}
		if !jumped {
			return
		}
	}
}

func (r *Run) noteFunc(fn *ssa.Function, intrinsic bool) {
	if r.w.funcs[fn] == 0 {
		if intrinsic {
			r.w.funcs[fn] = 2
		} else {
			r.w.funcs[fn] = 1
		}
	}
}

func sortedKeys[V any](m map[string]V) []string {
	ks := make([]string, 0, len(m))
	for k := range m {
		ks = append(ks, k)
	}
	sort.Strings(ks)
	return ks
}

// initConstStores executes, for a package whose initialiser is not run, the stores of constants
// into package-level variables (var X byte = 0x7f ...), so that such variables do not silently
// read as zero. Globals initialised by anything else are remembered; reading one of them is
// reported in the evidence (uninitialised_globals_read).
func (r *Run) initConstStores(pkg *ssa.Package) {
	r.eng.buildPkg(pkg)
	initFn := pkg.Func("init")
	if initFn == nil {
		return
	}
	for _, b := range initFn.Blocks {
		for _, ins := range b.Instrs {
			st, ok := ins.(*ssa.Store)
			if !ok {
				continue
			}
			g, ok := st.Addr.(*ssa.Global)
			if !ok || g.Pkg != pkg {
				continue
			}
			if c, ok := st.Val.(*ssa.Const); ok {
				cell := r.global(g)
				*cell = constValue(c)
				continue
			}
			r.w.noteUninit(g)
		}
	}
}

// initFixups sets the few globals of init-skipped packages that the targets read.
func (r *Run) initFixups(pkg *ssa.Package) {
	switch pkg.Pkg.Path() {
	case "os":
		fsp := r.eng.Pkg("io/fs")
		if fsp == nil {
			return
		}
		for _, n := range []string{"ErrInvalid", "ErrPermission", "ErrExist", "ErrNotExist", "ErrClosed"} {
			if g := pkg.Var(n); g != nil {
				if src := fsp.Var(n); src != nil {
					r.w.markFixed(g)
					*r.global(g) = *r.global(src)
				}
			}
		}
		// only reachable through log output, which is stubbed out
		for _, n := range []string{"Stdout", "Stderr", "Stdin", "Args"} {
			if g := pkg.Var(n); g != nil {
				r.w.markFixed(g)
			}
		}
	case "internal/oserror":
	}
}
