package sym

import (
	"fmt"
	"go/types"
	"path"
	"sort"
	"strings"
)

type inode struct {
	data []value // byte terms
}

type fhandle struct {
	ino    *inode
	path   string
	off    int
	symOff *Term // non-nil: the position is this symbolic value, known to lie beyond the end of the file (off is a representative)
	closed bool
	rd, wr bool
	app    bool
}

type fsOp struct {
	kind string // create | write | truncate | sync | rename | remove | close
	path string
	to   string
	off  int
	data []value
	size int
	step int
}

type fsModel struct {
	files     map[string]*inode
	dirs      map[string]bool
	log       []fsOp
	step      int
	limits    map[string]int // path -> max file size (disk-full model)
	failNext  map[string]int // op kind -> countdown (1 = fail the next one)
	crashNote []string
	crashPlan map[string]any
	openCount int
}

func (r *Run) fsInit() *fsModel {
	if r.fs == nil {
		r.fs = &fsModel{files: map[string]*inode{}, dirs: map[string]bool{"/": true, "/vfs": true}, limits: map[string]int{}, failNext: map[string]int{}}
	}
	return r.fs
}

func cleanPath(v value) string {
	s, ok := v.(string)
	if !ok {
		panic(unsupported("symbolic file path"))
	}
	return path.Clean(s)
}

// settle re-validates a symbolic beyond-EOF position against the current file length (the file
// may have grown since the seek) and makes it concrete when it is no longer beyond the end.
func (h *fhandle) settle(r *Run) {
	if h.symOff == nil {
		return
	}
	if r.decide(r.st.BvCmp(OBvSlt, BV(64, uint64(len(h.ino.data))), h.symOff)) {
		h.off = len(h.ino.data) + 1
		return
	}
	h.off = int(r.concreteInt(h.symOff, "file position"))
	h.symOff = nil
}

func (fs *fsModel) logOp(op fsOp) {
	op.step = fs.step
	fs.log = append(fs.log, op)
}

// dump renders files as hex under a model (for replay files).
func (fs *fsModel) dump(r *Run, model func(*Term) (uint64, bool)) map[string]string {
	out := map[string]string{}
	for p, ino := range fs.files {
		var sb strings.Builder
		for _, b := range ino.data {
			t := b.(*Term)
			v := t.K
			if !t.IsConst() {
				if x, ok := model(t); ok {
					v = x
				} else {
					sb.WriteString("??")
					continue
				}
			}
			fmt.Fprintf(&sb, "%02x", v&0xff)
		}
		out[p] = sb.String()
	}
	return out
}

// ---------- error construction ----------

func (r *Run) fsGlobalErr(name string) iface {
	pkg := r.eng.Pkg("io/fs")
	if pkg == nil {
		panic(unsupported("io/fs not loaded"))
	}
	g, ok := pkg.Members[name].(interface{ Name() string })
	_ = g
	if !ok {
		panic(unsupported("io/fs." + name))
	}
	gl := pkg.Var(name)
	return (*r.global(gl)).(iface)
}

func (r *Run) pathError(op, p string, err iface) iface {
	t := r.eng.namedType("io/fs", "PathError")
	cell := new(value)
	*cell = structure{op, p, err}
	return iface{t: types.NewPointer(t), v: cell}
}

func (r *Run) errNotExist(op, p string) iface {
	return r.pathError(op, p, r.fsGlobalErr("ErrNotExist"))
}

func (r *Run) errExist(op, p string) iface {
	return r.pathError(op, p, r.fsGlobalErr("ErrExist"))
}

func (r *Run) errNoSpace(fr *frame, op, p string) iface {
	return r.pathError(op, p, mkError(fr, "no space left on device").(iface))
}

func (r *Run) errIO(fr *frame, op, p string) iface {
	return r.pathError(op, p, mkError(fr, "input/output error").(iface))
}

func (r *Run) errClosed(fr *frame, op, p string) iface {
	return r.pathError(op, p, r.fsGlobalErr("ErrClosed"))
}

func (fs *fsModel) shouldFail(kind string) bool {
	if n, ok := fs.failNext[kind]; ok && n > 0 {
		fs.failNext[kind] = n - 1
		return n == 1
	}
	return false
}

func (r *Run) fileInfo(name string, size int, isDir bool) value {
	t := r.eng.namedType("os", "fileStat")
	s := zero(t).(structure)
	s[fieldIndex(t, "name")] = path.Base(name)
	s[fieldIndex(t, "size")] = BV(64, uint64(size))
	mode := uint64(0o644)
	if isDir {
		mode = 0o755 | 1<<31
	}
	s[fieldIndex(t, "mode")] = BV(32, mode)
	cell := new(value)
	*cell = s
	return iface{t: types.NewPointer(t), v: cell}
}

func (fs *fsModel) isDir(p string) bool { return fs.dirs[p] }

func (fs *fsModel) mkdirAll(p string) {
	for p != "/" && p != "." && p != "" {
		fs.dirs[p] = true
		p = path.Dir(p)
	}
}

func fileArg(v value) *fhandle {
	n, ok := v.(*native)
	if !ok || n == nil {
		panic(rtPanic("invalid memory address or nil pointer dereference (nil *os.File)"))
	}
	return n.obj.(*fhandle)
}

func (r *Run) openFile(fr *frame, p string, flag int, create, trunc, excl bool) value {
	fs := r.fsInit()
	if fs.shouldFail("open") {
		return tuple{(*value)(nil), r.errIO(fr, "open", p)}
	}
	if fs.isDir(p) {
		h := &fhandle{ino: &inode{}, path: p, rd: true}
		return tuple{&native{kind: "file", obj: h}, iface{}}
	}
	ino := fs.files[p]
	if ino == nil {
		if !create {
			return tuple{(*value)(nil), r.errNotExist("open", p)}
		}
		if !fs.isDir(path.Dir(p)) {
			return tuple{(*value)(nil), r.errNotExist("open", p)}
		}
		ino = &inode{}
		fs.files[p] = ino
		fs.logOp(fsOp{kind: "create", path: p})
	} else if create && excl {
		return tuple{(*value)(nil), r.errExist("open", p)}
	} else if trunc {
		ino.data = nil
		fs.logOp(fsOp{kind: "truncate", path: p, size: 0})
	}
	acc := flag & 3
	h := &fhandle{ino: ino, path: p, rd: acc == 0 || acc == 2, wr: acc == 1 || acc == 2, app: flag&0x400 != 0}
	fs.openCount++
	return tuple{&native{kind: "file", obj: h}, iface{}}
}

func (r *Run) fileWrite(fr *frame, h *fhandle, off int, data []value, op string) (int, iface) {
	fs := r.fsInit()
	if h.closed {
		return 0, r.errClosed(fr, op, h.path)
	}
	if !h.wr {
		return 0, r.pathError(op, h.path, mkError(fr, "bad file descriptor").(iface))
	}
	if fs.shouldFail("write") {
		return 0, r.errIO(fr, op, h.path)
	}
	n := len(data)
	var err iface
	if lim, ok := fs.limits[h.path]; ok {
		room := lim - off
		if room < 0 {
			room = 0
		}
		if n > room {
			n = room
			err = r.errNoSpace(fr, op, h.path)
		}
	}
	if n > 0 {
		for len(h.ino.data) < off {
			h.ino.data = append(h.ino.data, BV(8, 0))
		}
		cp := make([]value, n)
		copy(cp, data[:n])
		for i := 0; i < n; i++ {
			if off+i < len(h.ino.data) {
				h.ino.data[off+i] = cp[i]
			} else {
				h.ino.data = append(h.ino.data, cp[i])
			}
		}
		fs.logOp(fsOp{kind: "write", path: h.path, off: off, data: cp})
	}
	return n, err
}

func registerOSIntrinsics(e *Engine) {
	in := e.intr
	in["os.Stat"] = func(fr *frame, args []value) value {
		r := fr.run()
		fs := r.fsInit()
		p := cleanPath(args[0])
		if fs.shouldFail("stat") {
			return tuple{iface{}, r.errIO(fr, "stat", p)}
		}
		if ino, ok := fs.files[p]; ok {
			return tuple{r.fileInfo(p, len(ino.data), false), iface{}}
		}
		if fs.isDir(p) {
			return tuple{r.fileInfo(p, 0, true), iface{}}
		}
		return tuple{iface{}, r.errNotExist("stat", p)}
	}
	in["os.Lstat"] = in["os.Stat"]
	in["os.Create"] = func(fr *frame, args []value) value {
		return fr.run().openFile(fr, cleanPath(args[0]), 2, true, true, false)
	}
	in["os.Open"] = func(fr *frame, args []value) value {
		return fr.run().openFile(fr, cleanPath(args[0]), 0, false, false, false)
	}
	in["os.OpenFile"] = func(fr *frame, args []value) value {
		fl := int(fr.run().concreteInt(args[1].(*Term), "open flags"))
		return fr.run().openFile(fr, cleanPath(args[0]), fl, fl&0x40 != 0, fl&0x200 != 0, fl&0x80 != 0)
	}
	in["os.Remove"] = func(fr *frame, args []value) value {
		r := fr.run()
		fs := r.fsInit()
		p := cleanPath(args[0])
		if fs.shouldFail("remove") {
			return r.errIO(fr, "remove", p)
		}
		if _, ok := fs.files[p]; ok {
			delete(fs.files, p)
			fs.logOp(fsOp{kind: "remove", path: p})
			return iface{}
		}
		if fs.isDir(p) {
			for f := range fs.files {
				if strings.HasPrefix(f, p+"/") {
					return r.pathError("remove", p, mkError(fr, "directory not empty").(iface))
				}
			}
			for d := range fs.dirs {
				if strings.HasPrefix(d, p+"/") {
					return r.pathError("remove", p, mkError(fr, "directory not empty").(iface))
				}
			}
			delete(fs.dirs, p)
			return iface{}
		}
		return r.errNotExist("remove", p)
	}
	in["os.RemoveAll"] = func(fr *frame, args []value) value {
		r := fr.run()
		fs := r.fsInit()
		p := cleanPath(args[0])
		var gone []string
		for f := range fs.files {
			if f == p || strings.HasPrefix(f, p+"/") {
				gone = append(gone, f)
			}
		}
		sort.Strings(gone)
		for _, f := range gone {
			delete(fs.files, f)
			fs.logOp(fsOp{kind: "remove", path: f})
		}
		for d := range fs.dirs {
			if d == p || strings.HasPrefix(d, p+"/") {
				delete(fs.dirs, d)
			}
		}
		return iface{}
	}
	in["os.Rename"] = func(fr *frame, args []value) value {
		r := fr.run()
		fs := r.fsInit()
		a, b := cleanPath(args[0]), cleanPath(args[1])
		if fs.shouldFail("rename") {
			return r.errIO(fr, "rename", a)
		}
		ino, ok := fs.files[a]
		if !ok {
			return r.errNotExist("rename", a)
		}
		delete(fs.files, a)
		fs.files[b] = ino
		fs.logOp(fsOp{kind: "rename", path: a, to: b})
		return iface{}
	}
	in["os.MkdirAll"] = func(fr *frame, args []value) value {
		fs := fr.run().fsInit()
		fs.mkdirAll(cleanPath(args[0]))
		return iface{}
	}
	in["os.Mkdir"] = in["os.MkdirAll"]
	in["os.MkdirTemp"] = func(fr *frame, args []value) value {
		fs := fr.run().fsInit()
		fs.openCount++
		p := fmt.Sprintf("/vfs/tmp%d", fs.openCount)
		fs.mkdirAll(p)
		return tuple{p, iface{}}
	}
	in["os.ReadFile"] = func(fr *frame, args []value) value {
		r := fr.run()
		fs := r.fsInit()
		p := cleanPath(args[0])
		if fs.shouldFail("read") {
			return tuple{[]value(nil), r.errIO(fr, "read", p)}
		}
		ino, ok := fs.files[p]
		if !ok {
			return tuple{[]value(nil), r.errNotExist("open", p)}
		}
		out := make([]value, len(ino.data))
		copy(out, ino.data)
		return tuple{out, iface{}}
	}
	in["os.WriteFile"] = func(fr *frame, args []value) value {
		r := fr.run()
		fs := r.fsInit()
		p := cleanPath(args[0])
		if !fs.isDir(path.Dir(p)) {
			return r.errNotExist("open", p)
		}
		res := r.openFile(fr, p, 1, true, true, false).(tuple)
		if e := res[1].(iface); e.t != nil {
			return e
		}
		h := fileArg(res[0])
		_, err := r.fileWrite(fr, h, 0, args[1].([]value), "write")
		return err
	}
	in["os.ReadDir"] = func(fr *frame, args []value) value {
		r := fr.run()
		fs := r.fsInit()
		p := cleanPath(args[0])
		if !fs.isDir(p) {
			return tuple{[]value(nil), r.errNotExist("open", p)}
		}
		names := map[string]bool{}
		for f := range fs.files {
			if path.Dir(f) == p {
				names[path.Base(f)] = false
			}
		}
		for d := range fs.dirs {
			if path.Dir(d) == p && d != p {
				names[path.Base(d)] = true
			}
		}
		var ks []string
		for k := range names {
			ks = append(ks, k)
		}
		sort.Strings(ks)
		t := r.eng.namedType("os", "unixDirent")
		out := make([]value, 0, len(ks))
		for _, k := range ks {
			s := zero(t).(structure)
			s[fieldIndex(t, "parent")] = p
			s[fieldIndex(t, "name")] = k
			if names[k] {
				s[fieldIndex(t, "typ")] = BV(32, 1<<31)
			}
			size := 0
			if ino := fs.files[p+"/"+k]; ino != nil {
				size = len(ino.data)
			}
			s[fieldIndex(t, "info")] = r.fileInfo(k, size, names[k])
			cell := new(value)
			*cell = s
			out = append(out, iface{t: types.NewPointer(t), v: cell})
		}
		return tuple{out, iface{}}
	}
	in["(*os.File).Name"] = func(fr *frame, args []value) value { return fileArg(args[0]).path }
	in["(*os.File).Write"] = func(fr *frame, args []value) value {
		h := fileArg(args[0])
		if h.symOff != nil {
			h.off = int(fr.run().concreteInt(h.symOff, "write position"))
			h.symOff = nil
		}
		off := h.off
		if h.app {
			off = len(h.ino.data)
		}
		n, err := fr.run().fileWrite(fr, h, off, args[1].([]value), "write")
		h.off = off + n
		return tuple{BV(64, uint64(n)), err}
	}
	in["(*os.File).WriteString"] = func(fr *frame, args []value) value {
		h := fileArg(args[0])
		bs := strBytes(args[1])
		data := make([]value, len(bs))
		for i, b := range bs {
			data[i] = b
		}
		n, err := fr.run().fileWrite(fr, h, h.off, data, "write")
		h.off += n
		return tuple{BV(64, uint64(n)), err}
	}
	in["(*os.File).WriteAt"] = func(fr *frame, args []value) value {
		h := fileArg(args[0])
		off := int(fr.run().concreteInt(args[2].(*Term), "WriteAt offset"))
		n, err := fr.run().fileWrite(fr, h, off, args[1].([]value), "write")
		return tuple{BV(64, uint64(n)), err}
	}
	readAt := func(fr *frame, h *fhandle, buf []value, off int) (int, iface) {
		r := fr.run()
		fs := r.fsInit()
		if h.closed {
			return 0, r.errClosed(fr, "read", h.path)
		}
		if fs.shouldFail("read") {
			return 0, r.errIO(fr, "read", h.path)
		}
		if len(buf) == 0 {
			return 0, iface{}
		}
		avail := len(h.ino.data) - off
		if avail <= 0 {
			return 0, (*r.global(r.eng.Pkg("io").Var("EOF"))).(iface)
		}
		n := min(avail, len(buf))
		copy(buf[:n], h.ino.data[off:off+n])
		return n, iface{}
	}
	in["(*os.File).Read"] = func(fr *frame, args []value) value {
		h := fileArg(args[0])
		h.settle(fr.run())
		n, err := readAt(fr, h, args[1].([]value), h.off)
		h.off += n
		return tuple{BV(64, uint64(n)), err}
	}
	in["(*os.File).ReadAt"] = func(fr *frame, args []value) value {
		h := fileArg(args[0])
		off := int(fr.run().concreteInt(args[2].(*Term), "ReadAt offset"))
		buf := args[1].([]value)
		n, err := readAt(fr, h, buf, off)
		if err.t == nil && n < len(buf) {
			err = (*fr.run().global(fr.run().eng.Pkg("io").Var("EOF"))).(iface)
		}
		return tuple{BV(64, uint64(n)), err}
	}
	in["(*os.File).Seek"] = func(fr *frame, args []value) value {
		r := fr.run()
		h := fileArg(args[0])
		if h.closed {
			return tuple{BV(64, 0), r.errClosed(fr, "seek", h.path)}
		}
		offT := args[1].(*Term)
		wh := int(r.concreteInt(args[2].(*Term), "whence"))
		h.settle(r)
		var base *Term
		switch wh {
		case 0:
			base = BV(64, 0)
		case 1:
			base = BV(64, uint64(h.off))
			if h.symOff != nil {
				base = h.symOff
			}
		default:
			base = BV(64, uint64(len(h.ino.data)))
		}
		target := r.st.BvBin(OBvAdd, base, offT)
		if !target.IsConst() {
			// position classes: negative (error), inside the file (one path per value), beyond the
			// end (every such position behaves alike for reads: one symbolic representative)
			if r.decide(r.st.BvCmp(OBvSlt, target, BV(64, 0))) {
				return tuple{BV(64, 0), r.pathError("seek", h.path, mkError(fr, "invalid argument").(iface))}
			}
			if !r.decide(r.st.BvCmp(OBvSle, target, BV(64, uint64(len(h.ino.data))))) {
				h.off = len(h.ino.data) + 1
				h.symOff = target
				return tuple{target, iface{}}
			}
		}
		off := int(r.concreteInt(target, "seek offset"))
		if off < 0 {
			return tuple{BV(64, 0), r.pathError("seek", h.path, mkError(fr, "invalid argument").(iface))}
		}
		h.off = off
		h.symOff = nil
		return tuple{BV(64, uint64(off)), iface{}}
	}
	in["(*os.File).Sync"] = func(fr *frame, args []value) value {
		r := fr.run()
		fs := r.fsInit()
		h := fileArg(args[0])
		if h.closed {
			return r.errClosed(fr, "sync", h.path)
		}
		if fs.shouldFail("sync") {
			return r.errIO(fr, "sync", h.path)
		}
		fs.logOp(fsOp{kind: "sync", path: h.path})
		return iface{}
	}
	in["(*os.File).Close"] = func(fr *frame, args []value) value {
		r := fr.run()
		n, ok := args[0].(*native)
		if !ok {
			return r.pathError("close", "", mkError(fr, "invalid argument").(iface))
		}
		h := n.obj.(*fhandle)
		if h.closed {
			return r.errClosed(fr, "close", h.path)
		}
		h.closed = true
		return iface{}
	}
	in["(*os.File).Truncate"] = func(fr *frame, args []value) value {
		r := fr.run()
		fs := r.fsInit()
		h := fileArg(args[0])
		sz := int(r.concreteInt(args[1].(*Term), "truncate size"))
		if sz < len(h.ino.data) {
			h.ino.data = h.ino.data[:sz:sz]
		}
		for len(h.ino.data) < sz {
			h.ino.data = append(h.ino.data, BV(8, 0))
		}
		fs.logOp(fsOp{kind: "truncate", path: h.path, size: sz})
		return iface{}
	}
	in["(*os.File).Stat"] = func(fr *frame, args []value) value {
		r := fr.run()
		h := fileArg(args[0])
		if h.closed {
			return tuple{iface{}, r.errClosed(fr, "stat", h.path)}
		}
		return tuple{r.fileInfo(h.path, len(h.ino.data), false), iface{}}
	}
	in["path/filepath.Join"] = func(fr *frame, args []value) value {
		parts := args[0].([]value)
		ss := make([]string, len(parts))
		for i, p := range parts {
			s, ok := p.(string)
			if !ok {
				return fallThrough{}
			}
			ss[i] = s
		}
		// filepath.Join semantic (unix)
		var nonEmpty []string
		for _, s := range ss {
			if s != "" {
				nonEmpty = append(nonEmpty, s)
			}
		}
		if len(nonEmpty) == 0 {
			return ""
		}
		return path.Clean(strings.Join(nonEmpty, "/"))
	}
	in["path/filepath.Walk"] = func(fr *frame, args []value) value {
		r := fr.run()
		fs := r.fsInit()
		root := cleanPath(args[0])
		var all []string
		for f := range fs.files {
			if f == root || strings.HasPrefix(f, root+"/") {
				all = append(all, f)
			}
		}
		for d := range fs.dirs {
			if d == root || strings.HasPrefix(d, root+"/") {
				all = append(all, d)
			}
		}
		sort.Strings(all)
		skip := ""
		for _, p := range all {
			if skip != "" && strings.HasPrefix(p, skip+"/") {
				continue
			}
			isDir := fs.dirs[p]
			size := 0
			if !isDir {
				size = len(fs.files[p].data)
			}
			res := call(fr.th, fr, 0, args[1], []value{p, r.fileInfo(p, size, isDir), iface{}}).(iface)
			if res.t != nil {
				skipDir := (*r.global(r.eng.Pkg("io/fs").Var("SkipDir"))).(iface)
				if r.decide(valEq(fr, nil, res, skipDir)) {
					if isDir {
						skip = p
					} else {
						skip = path.Dir(p)
					}
					continue
				}
				return res
			}
		}
		return iface{}
	}
}

// ---------- harness FS API ----------

func registerFSAPI(e *Engine, m func(string, intrinsicFn)) {
	m("Snapshot", func(fr *frame, args []value) value {
		fs := hRun(args).fsInit()
		fs.step++
		return nil
	})
	m("Checkpoint", func(fr *frame, args []value) value {
		fs := hRun(args).fsInit()
		fs.step++
		return nil
	})
	m("FileBytes", func(fr *frame, args []value) value {
		fs := hRun(args).fsInit()
		ino := fs.files[cleanPath(args[1])]
		if ino == nil {
			return []value(nil)
		}
		out := make([]value, len(ino.data))
		copy(out, ino.data)
		return out
	})
	m("FileExists", func(fr *frame, args []value) value {
		fs := hRun(args).fsInit()
		_, ok := fs.files[cleanPath(args[1])]
		return Bool(ok)
	})
	m("PutFile", func(fr *frame, args []value) value {
		fs := hRun(args).fsInit()
		p := cleanPath(args[1])
		fs.mkdirAll(path.Dir(p))
		data := args[2].([]value)
		cp := make([]value, len(data))
		copy(cp, data)
		fs.files[p] = &inode{data: cp}
		fs.logOp(fsOp{kind: "create", path: p})
		fs.logOp(fsOp{kind: "write", path: p, off: 0, data: cp})
		fs.logOp(fsOp{kind: "sync", path: p})
		return nil
	})
	m("RemoveFile", func(fr *frame, args []value) value {
		fs := hRun(args).fsInit()
		if _, ok := fs.files[cleanPath(args[1])]; ok {
			delete(fs.files, cleanPath(args[1]))
			fs.logOp(fsOp{kind: "remove", path: cleanPath(args[1])})
		}
		return nil
	})
	m("ListFiles", func(fr *frame, args []value) value {
		fs := hRun(args).fsInit()
		dir := cleanPath(args[1])
		var ks []string
		for f := range fs.files {
			if strings.HasPrefix(f, dir+"/") {
				ks = append(ks, f)
			}
		}
		sort.Strings(ks)
		out := make([]value, len(ks))
		for i, k := range ks {
			out[i] = k
		}
		return out
	})
	m("DiskLimit", func(fr *frame, args []value) value {
		fs := hRun(args).fsInit()
		fs.limits[cleanPath(args[1])] = argInt(args[2])
		return nil
	})
	m("DiskClear", func(fr *frame, args []value) value {
		fs := hRun(args).fsInit()
		delete(fs.limits, cleanPath(args[1]))
		return nil
	})
	m("FailNext", func(fr *frame, args []value) value {
		fs := hRun(args).fsInit()
		fs.failNext[argStr(args[1])] = argInt(args[2])
		return nil
	})
	m("FSOps", func(fr *frame, args []value) value {
		fs := hRun(args).fsInit()
		return BV(64, uint64(len(fs.log)))
	})
	// CrashImage(path): replaces the file by a crash image: all ops up to a chosen point k (>= last
	// sync of that file), plus a torn prefix of the next write. Returns false when there is nothing to lose.
	m("CrashImageAnywhere", func(fr *frame, args []value) value {
		r := hRun(args)
		fs := r.fsInit()
		return Bool(fs.crashFrom(r, cleanPath(args[1]), true))
	})
	m("CrashImage", func(fr *frame, args []value) value {
		r := hRun(args)
		fs := r.fsInit()
		p := cleanPath(args[1])
		return Bool(fs.crash(r, p))
	})
}

// crash rebuilds every file from a prefix of the op log.
func (fs *fsModel) crash(r *Run, p string) bool { return fs.crashFrom(r, p, false) }

// crashFrom: with anywhere=true the crash may have happened at ANY earlier point of the
// operation log (the process died in the middle of the calls made so far), not only after the
// last Sync; the harness oracle must then not assume that a Sync has completed.
func (fs *fsModel) crashFrom(r *Run, p string, anywhere bool) bool {
	// indices of ops touching p (through renames we track by current name at time of op)
	lastSync := 0
	for i, op := range fs.log {
		if op.kind == "sync" {
			lastSync = i + 1
		}
	}
	n := len(fs.log)
	if anywhere {
		lastSync = 0
	}
	if lastSync >= n {
		// everything is durable: crash after the last op
		fs.crashNote = append(fs.crashNote, fmt.Sprintf("crash after all %d ops (all synced)", n))
		fs.crashPlan = map[string]any{"k": n, "torn": 0, "lost": false}
		fs.rebuild(n, 0)
		return false
	}
	k := lastSync + r.choose(n-lastSync+1, "crashpoint")
	torn := 0
	if k < n && fs.log[k].kind == "write" && len(fs.log[k].data) > 1 {
		// torn prefixes that leave the file byte-identical to an earlier candidate are the same
		// crash image: keep one representative per distinct image
		op := fs.log[k]
		var cur []value
		for i := 0; i < k; i++ {
			if o := fs.log[i]; o.path == op.path {
				switch o.kind {
				case "create":
					cur = nil
				case "truncate":
					if o.size < len(cur) {
						cur = cur[:o.size:o.size]
					}
				case "write":
					for len(cur) < o.off {
						cur = append(cur, BV(8, 0))
					}
					for j, b := range o.data {
						if o.off+j < len(cur) {
							cur[o.off+j] = b
						} else {
							cur = append(cur, b)
						}
					}
				}
			}
		}
		cands := []int{0}
		for j := 1; j < len(op.data); j++ {
			// prefix j differs from prefix j-1 iff byte j-1 changes the file
			pos := op.off + j - 1
			same := pos < len(cur) && sameByte(cur[pos], op.data[j-1])
			if !same {
				cands = append(cands, j)
			}
		}
		torn = cands[r.choose(len(cands), "torn")]
	}
	fs.crashNote = append(fs.crashNote, fmt.Sprintf("crash after op %d of %d (last sync at %d), torn bytes of next write: %d", k, n, lastSync, torn))
	// plan for the native reconstruction from the real operation log (verifrt/vos)
	plan := map[string]any{"k": k, "torn": torn, "lost": true}
	fs.crashPlan = plan
	r.inputs = append(r.inputs, inputRec{Fn: "CrashK", Name: "crash.k", IsConc: true, Conc: uint64(k)}, inputRec{Fn: "CrashTorn", Name: "crash.torn", IsConc: true, Conc: uint64(torn)})
	fs.rebuild(k, torn)
	return true
}

func (fs *fsModel) rebuild(k, torn int) {
	files := map[string]*inode{}
	apply := func(op fsOp, limit int) {
		switch op.kind {
		case "create":
			files[op.path] = &inode{}
		case "write":
			ino := files[op.path]
			if ino == nil {
				ino = &inode{}
				files[op.path] = ino
			}
			data := op.data
			if limit >= 0 && limit < len(data) {
				data = data[:limit]
			}
			for len(ino.data) < op.off {
				ino.data = append(ino.data, BV(8, 0))
			}
			for i, b := range data {
				if op.off+i < len(ino.data) {
					ino.data[op.off+i] = b
				} else {
					ino.data = append(ino.data, b)
				}
			}
		case "truncate":
			if ino := files[op.path]; ino != nil {
				if op.size < len(ino.data) {
					ino.data = ino.data[:op.size:op.size]
				}
				for len(ino.data) < op.size {
					ino.data = append(ino.data, BV(8, 0))
				}
			}
		case "rename":
			if ino := files[op.path]; ino != nil {
				delete(files, op.path)
				files[op.to] = ino
			}
		case "remove":
			delete(files, op.path)
		}
	}
	for i := 0; i < k && i < len(fs.log); i++ {
		apply(fs.log[i], -1)
	}
	if torn > 0 && k < len(fs.log) {
		apply(fs.log[k], torn)
	}
	fs.files = files
	fs.log = nil
	var names []string
	for p := range files {
		names = append(names, p)
	}
	sort.Strings(names)
	for _, p := range names {
		fs.logOp(fsOp{kind: "create", path: p})
		fs.logOp(fsOp{kind: "write", path: p, off: 0, data: append([]value(nil), files[p].data...)})
	}
	fs.logOp(fsOp{kind: "sync"})
}

func sameByte(a, b value) bool {
	x, y := a.(*Term), b.(*Term)
	if x == y {
		return true
	}
	return x.IsConst() && y.IsConst() && x.K == y.K
}
