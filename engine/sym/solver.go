package sym

import (
	"bufio"
	"fmt"
	"io"
	"os"
	"os/exec"
	"strconv"
	"strings"
	"time"
)

type Result int

const (
	Unsat Result = iota
	Sat
	Unknown // unknown, timeout, or any (error line: inconclusive
)

func (r Result) String() string { return [...]string{"unsat", "sat", "unknown"}[r] }

// Solver is one SMT solver process driven over a pipe.
type Solver struct {
	Kind                   string // z3 | z3-new | cvc5
	cmd                    *exec.Cmd
	in                     io.WriteCloser
	out                    *bufio.Reader
	buf                    strings.Builder
	emitted                map[int32]bool
	declUF                 map[string]bool
	Queries                int
	NSat, NUnsat, NUnknown int
	Time                   time.Duration
	LastErr                string
	timeoutMs              int
	Log                    io.Writer // optional transcript
	dead                   bool
	runOpen                bool
}

func NewSolver(kind string, timeoutMs int) (*Solver, error) {
	var cmd *exec.Cmd
	switch kind {
	case "z3":
		cmd = exec.Command("/usr/bin/z3", "-in", "-smt2")
	case "z3-new":
		cmd = exec.Command("z3-new", "-in", "-smt2")
	case "cvc5":
		cmd = exec.Command("cvc5", "--incremental", "--lang=smt2", "--produce-models", fmt.Sprintf("--tlimit-per=%d", timeoutMs))
	default:
		return nil, fmt.Errorf("unknown solver %q", kind)
	}
	in, err := cmd.StdinPipe()
	if err != nil {
		return nil, err
	}
	out, err := cmd.StdoutPipe()
	if err != nil {
		return nil, err
	}
	cmd.Stderr = cmd.Stdout
	if err := cmd.Start(); err != nil {
		return nil, err
	}
	s := &Solver{Kind: kind, cmd: cmd, in: in, out: bufio.NewReaderSize(out, 1<<16), timeoutMs: timeoutMs}
	if kind == "cvc5" {
		s.send("(set-logic ALL)\n")
	} else {
		s.send(fmt.Sprintf("(set-option :timeout %d)\n", timeoutMs))
		s.send("(set-option :produce-models true)\n")
	}
	s.emitted = map[int32]bool{}
	s.declUF = map[string]bool{}
	if p := os.Getenv("VERIF_SMTLOG"); p != "" {
		if f, err := os.OpenFile(fmt.Sprintf("%s.%d", p, os.Getpid()), os.O_CREATE|os.O_WRONLY|os.O_APPEND, 0o644); err == nil {
			s.Log = f
		}
	}
	return s, nil
}

func (s *Solver) Close() {
	if s.cmd != nil && s.cmd.Process != nil {
		s.in.Close()
		s.cmd.Process.Kill()
		s.cmd.Wait()
	}
}

func (s *Solver) send(txt string) {
	s.buf.WriteString(txt)
}

func (s *Solver) flush() {
	if s.buf.Len() == 0 {
		return
	}
	if s.Log != nil {
		io.WriteString(s.Log, s.buf.String())
	}
	if _, err := io.WriteString(s.in, s.buf.String()); err != nil {
		s.dead = true
		s.LastErr = "write: " + err.Error()
	}
	s.buf.Reset()
}

const endMark = "<<END>>"

// roundTrip flushes pending commands plus an echo marker and returns all output lines before the marker.
func (s *Solver) roundTrip() []string {
	s.send("(echo \"" + endMark + "\")\n")
	s.flush()
	var lines []string
	for {
		line, err := s.out.ReadString('\n')
		if err != nil {
			s.dead = true
			s.LastErr = "solver pipe closed: " + err.Error()
			return lines
		}
		line = strings.TrimSpace(line)
		if strings.Trim(line, "\"") == endMark {
			return lines
		}
		if line != "" {
			lines = append(lines, line)
		}
	}
}

// BeginRun opens a scope; all declarations/definitions/assertions of one path live in it.
func (s *Solver) BeginRun() {
	s.runOpen = false
	s.emitted = map[int32]bool{}
	s.declUF = map[string]bool{}
}

// open lazily opens the per-run scope (paths that never touch the solver cost nothing).
func (s *Solver) open() {
	if !s.runOpen {
		s.runOpen = true
		s.send("(push 1)\n")
	}
}

func (s *Solver) EndRun() {
	if s.runOpen {
		s.send("(pop 1)\n")
		s.flush()
		s.runOpen = false
	}
}

// define emits declarations/definitions for every node reachable from t not yet emitted.
func (s *Solver) define(t *Term) {
	if t.Op == OConst || s.emitted[t.id] {
		return
	}
	s.open()
	type fr struct {
		t *Term
		i int
	}
	stack := []fr{{t, 0}}
	for len(stack) > 0 {
		f := &stack[len(stack)-1]
		ch := f.t.children()
		if f.i < len(ch) {
			c := ch[f.i]
			f.i++
			if c.Op != OConst && !s.emitted[c.id] {
				stack = append(stack, fr{c, 0})
			}
			continue
		}
		n := f.t
		stack = stack[:len(stack)-1]
		if s.emitted[n.id] {
			continue
		}
		s.emitted[n.id] = true
		switch n.Op {
		case OVar:
			s.send(fmt.Sprintf("(declare-const %s %s)\n", symName(n.Name), n.Sort()))
		case OUF:
			if !s.declUF[n.Name] {
				s.declUF[n.Name] = true
				var as []string
				for _, a := range n.Args {
					as = append(as, a.Sort())
				}
				s.send(fmt.Sprintf("(declare-fun %s (%s) %s)\n", symName(n.Name), strings.Join(as, " "), n.Sort()))
			}
			s.send(fmt.Sprintf("(define-fun t!%d () %s %s)\n", n.id, n.Sort(), body(n)))
		default:
			s.send(fmt.Sprintf("(define-fun t!%d () %s %s)\n", n.id, n.Sort(), body(n)))
		}
	}
}

// Assert adds t to the current run scope permanently.
func (s *Solver) Assert(t *Term) {
	if t.IsConst() && t.K != 0 {
		return
	}
	s.open()
	s.define(t)
	s.send(fmt.Sprintf("(assert %s)\n", ref(t)))
}

func parseResult(lines []string) (Result, string) {
	res := Unknown
	seen := false
	for _, l := range lines {
		if strings.HasPrefix(l, "(error") {
			return Unknown, l
		}
	}
	for _, l := range lines {
		switch l {
		case "sat":
			res, seen = Sat, true
		case "unsat":
			res, seen = Unsat, true
		case "unknown", "timeout":
			res, seen = Unknown, true
		}
	}
	if !seen {
		return Unknown, "no answer: " + strings.Join(lines, " / ")
	}
	return res, ""
}

// Check decides PC ∧ extra. If wanted != nil and the result is Sat, it returns
// the values (bit patterns) of the wanted terms.
func (s *Solver) Check(extra []*Term, wanted []*Term) (Result, []uint64) {
	if s.dead {
		return Unknown, nil
	}
	s.open()
	for _, e := range extra {
		s.define(e)
	}
	for _, w := range wanted {
		s.define(w)
	}
	s.send("(push 1)\n")
	for _, e := range extra {
		s.send(fmt.Sprintf("(assert %s)\n", ref(e)))
	}
	s.send("(check-sat)\n")
	t0 := time.Now()
	lines := s.roundTrip()
	s.Time += time.Since(t0)
	s.Queries++
	res, errline := parseResult(lines)
	if errline != "" {
		s.LastErr = errline
	}
	var vals []uint64
	if res == Sat && len(wanted) > 0 {
		vals = make([]uint64, len(wanted))
		// query in chunks to keep lines parseable
		for i := 0; i < len(wanted); i += 64 {
			j := min(i+64, len(wanted))
			var sb strings.Builder
			sb.WriteString("(get-value (")
			for _, w := range wanted[i:j] {
				sb.WriteString(ref(w) + " ")
			}
			sb.WriteString("))\n")
			s.send(sb.String())
			out := strings.Join(s.roundTrip(), " ")
			if strings.Contains(out, "(error") {
				s.LastErr = out
				res = Unknown
				break
			}
			vs, err := parseValues(out, wanted[i:j])
			if err != nil {
				s.LastErr = err.Error() + " in " + out
				res = Unknown
				break
			}
			copy(vals[i:j], vs)
		}
	}
	s.send("(pop 1)\n")
	switch res {
	case Sat:
		s.NSat++
	case Unsat:
		s.NUnsat++
	default:
		s.NUnknown++
	}
	return res, vals
}

// ---- s-expression parsing of get-value output ----

type sexp struct {
	atom string
	list []*sexp
}

func parseSexp(s string, pos *int) (*sexp, error) {
	for *pos < len(s) && (s[*pos] == ' ' || s[*pos] == '\n' || s[*pos] == '\t') {
		*pos++
	}
	if *pos >= len(s) {
		return nil, fmt.Errorf("eof")
	}
	if s[*pos] == '(' {
		*pos++
		n := &sexp{}
		for {
			for *pos < len(s) && (s[*pos] == ' ' || s[*pos] == '\n' || s[*pos] == '\t') {
				*pos++
			}
			if *pos >= len(s) {
				return nil, fmt.Errorf("unbalanced")
			}
			if s[*pos] == ')' {
				*pos++
				if n.list == nil {
					n.list = []*sexp{}
				}
				return n, nil
			}
			c, err := parseSexp(s, pos)
			if err != nil {
				return nil, err
			}
			n.list = append(n.list, c)
		}
	}
	start := *pos
	if s[*pos] == '|' {
		*pos++
		for *pos < len(s) && s[*pos] != '|' {
			*pos++
		}
		*pos++
		return &sexp{atom: s[start:*pos]}, nil
	}
	for *pos < len(s) && !strings.ContainsRune(" \n\t()", rune(s[*pos])) {
		*pos++
	}
	return &sexp{atom: s[start:*pos]}, nil
}

func bvAtom(a string) (uint64, int, bool) {
	if strings.HasPrefix(a, "#x") {
		v, err := strconv.ParseUint(a[2:], 16, 64)
		return v, 4 * (len(a) - 2), err == nil
	}
	if strings.HasPrefix(a, "#b") {
		v, err := strconv.ParseUint(a[2:], 2, 64)
		return v, len(a) - 2, err == nil
	}
	return 0, 0, false
}

func valueOf(e *sexp, t *Term) (uint64, error) {
	switch t.Kind {
	case KBool:
		if e.atom == "true" {
			return 1, nil
		}
		if e.atom == "false" {
			return 0, nil
		}
	case KBV:
		if v, _, ok := bvAtom(e.atom); ok {
			return v, nil
		}
		// (_ bv123 32)
		if len(e.list) == 3 && e.list[0].atom == "_" && strings.HasPrefix(e.list[1].atom, "bv") {
			v, err := strconv.ParseUint(e.list[1].atom[2:], 10, 64)
			return v, err
		}
	case KF32, KF64:
		eb, sb := 8, 23
		if t.Kind == KF64 {
			eb, sb = 11, 52
		}
		if len(e.list) == 4 && e.list[0].atom == "fp" {
			sg, _, ok1 := bvAtom(e.list[1].atom)
			ex, _, ok2 := bvAtom(e.list[2].atom)
			mn, _, ok3 := bvAtom(e.list[3].atom)
			if ok1 && ok2 && ok3 {
				return sg<<(eb+sb) | ex<<sb | mn, nil
			}
		}
		if len(e.list) == 4 && e.list[0].atom == "_" {
			expAll := (uint64(1)<<eb - 1) << sb
			switch e.list[1].atom {
			case "+zero":
				return 0, nil
			case "-zero":
				return uint64(1) << (eb + sb), nil
			case "+oo":
				return expAll, nil
			case "-oo":
				return uint64(1)<<(eb+sb) | expAll, nil
			case "NaN":
				return expAll | uint64(1)<<(sb-1), nil
			}
		}
	}
	return 0, fmt.Errorf("cannot parse value for %s", ref(t))
}

func parseValues(out string, wanted []*Term) ([]uint64, error) {
	pos := 0
	e, err := parseSexp(out, &pos)
	if err != nil {
		return nil, err
	}
	if len(e.list) != len(wanted) {
		return nil, fmt.Errorf("get-value: %d pairs for %d terms", len(e.list), len(wanted))
	}
	vals := make([]uint64, len(wanted))
	for i, p := range e.list {
		if len(p.list) != 2 {
			return nil, fmt.Errorf("get-value pair malformed")
		}
		v, err := valueOf(p.list[1], wanted[i])
		if err != nil {
			return nil, err
		}
		vals[i] = v
	}
	return vals, nil
}
