package sym

import (
	"fmt"
)

const (
	zeroTimeUnix     = -62135596800
	zeroTimeUnixNano = -6795364578871345152
	nsPerSec         = 1_000_000_000
)

// floorDivC / floorModC: floor division/modulo of a signed 64-bit term by a positive constant.
func (r *Run) floorDivC(x *Term, c uint64) *Term {
	if x.IsConst() {
		v := x.I64()
		q := v / int64(c)
		if v%int64(c) < 0 {
			q--
		}
		return BV(64, uint64(q))
	}
	// (x*c)/c patterns
	if x.Op == OBvMul && x.B.IsConst() && x.B.K == c {
		return x.A // assumes no overflow (times are within int64 nanosecond range)
	}
	st := r.st
	cc := BV(64, c)
	q := st.BvBin(OBvSDiv, x, cc)
	rem := st.BvBin(OBvSRem, x, cc)
	return st.Ite(st.BvCmp(OBvSlt, rem, BV(64, 0)), st.BvBin(OBvSub, q, BV(64, 1)), q)
}

func (r *Run) floorModC(x *Term, c uint64) *Term {
	if x.IsConst() {
		v := x.I64() % int64(c)
		if v < 0 {
			v += int64(c)
		}
		return BV(64, uint64(v))
	}
	if x.Op == OBvMul && x.B.IsConst() && x.B.K == c {
		return BV(64, 0)
	}
	st := r.st
	cc := BV(64, c)
	rem := st.BvBin(OBvSRem, x, cc)
	return st.Ite(st.BvCmp(OBvSlt, rem, BV(64, 0)), st.BvBin(OBvAdd, rem, cc), rem)
}

func (r *Run) timeSplit(t timeVal) (sec, nsec *Term) {
	if t.isZero {
		z := int64(zeroTimeUnix)
		return BV(64, uint64(z)), BV(64, 0)
	}
	if s, ok := r.splitCache[t.ns]; ok {
		return s[0], s[1]
	}
	sec, nsec = r.floorDivC(t.ns, nsPerSec), r.floorModC(t.ns, nsPerSec)
	if r.splitCache == nil {
		r.splitCache = map[*Term][2]*Term{}
		r.unsplit = map[[2]*Term]*Term{}
	}
	r.splitCache[t.ns] = [2]*Term{sec, nsec}
	r.unsplit[[2]*Term{sec, nsec}] = t.ns
	return
}

func (r *Run) timeUnix(sec, nsec *Term) timeVal {
	// recognise a previous split of the same instant (round trip through seconds/nanos)
	if r.unsplit != nil {
		n := nsec
		// sext(extract(31,0,m)) where 0 <= m < 1e9
		if n.Op == OSExt && n.A.Op == OExtract && n.A.K == 31<<8 {
			n = n.A.A
		}
		if x, ok := r.unsplit[[2]*Term{sec, n}]; ok {
			return timeVal{ns: x}
		}
	}
	st := r.st
	ns := st.BvBin(OBvAdd, st.BvBin(OBvMul, sec, BV(64, nsPerSec)), nsec)
	return timeVal{ns: ns}
}

// now returns a fresh symbolic instant, non-decreasing per run, within [2020, 2096].
func (r *Run) now(th *thread) timeVal {
	r.nowCount++
	t := r.st.Var(fmt.Sprintf("clock!%d", r.nowCount), KBV, 64)
	st := r.st
	lo := r.clock
	if lo == nil {
		lo = BV(64, 1_577_836_800*nsPerSec)
	}
	r.inputs = append(r.inputs, inputRec{Fn: "Clock", Name: fmt.Sprintf("clock%d", r.nowCount), Terms: []*Term{t}, W: 64})
	r.addPC(st.And(st.BvCmp(OBvSle, lo, t), st.BvCmp(OBvSle, t, BV(64, 4_000_000_000*nsPerSec))))
	if r.cfg.Params["timersNeverFire"] == 1 && r.clock != nil {
		// harness assumption "no timer elapses during the scenario": consecutive clock readings are
		// at most 1 ms apart, so no deadline computed from a reading is passed by a later reading
		r.addPC(st.BvCmp(OBvSle, t, st.BvBin(OBvAdd, lo, BV(64, 1_000_000))))
	}
	r.clock = t
	return timeVal{ns: t}
}

func (r *Run) timeNs(t timeVal) *Term {
	if t.isZero {
		z := int64(zeroTimeUnixNano)
		return BV(64, uint64(z))
	}
	return t.ns
}

func (r *Run) timeBefore(a, b timeVal) *Term {
	switch {
	case a.isZero && b.isZero:
		return falseT
	case a.isZero:
		return trueT
	case b.isZero:
		return falseT
	}
	return r.st.BvCmp(OBvSlt, a.ns, b.ns)
}

type timerState struct {
	ev     *envEvent
	ch     *channel
	f      value
	ticker bool
	fires  int
}

func registerTimeIntrinsics(e *Engine) {
	in := e.intr
	in["time.Now"] = func(fr *frame, args []value) value { return fr.run().now(fr.th) }
	in["time.Unix"] = func(fr *frame, args []value) value {
		return fr.run().timeUnix(args[0].(*Term), args[1].(*Term))
	}
	in["time.UnixMilli"] = func(fr *frame, args []value) value {
		r := fr.run()
		return timeVal{ns: r.st.BvBin(OBvMul, args[0].(*Term), BV(64, 1_000_000))}
	}
	in["time.UnixMicro"] = func(fr *frame, args []value) value {
		r := fr.run()
		return timeVal{ns: r.st.BvBin(OBvMul, args[0].(*Term), BV(64, 1_000))}
	}
	in["(time.Time).UnixNano"] = func(fr *frame, args []value) value { return fr.run().timeNs(args[0].(timeVal)) }
	in["(time.Time).Unix"] = func(fr *frame, args []value) value {
		s, _ := fr.run().timeSplit(args[0].(timeVal))
		return s
	}
	in["(time.Time).UnixMilli"] = func(fr *frame, args []value) value {
		return fr.run().floorDivC(fr.run().timeNs(args[0].(timeVal)), 1_000_000)
	}
	in["(time.Time).UnixMicro"] = func(fr *frame, args []value) value {
		return fr.run().floorDivC(fr.run().timeNs(args[0].(timeVal)), 1_000)
	}
	in["(time.Time).Nanosecond"] = func(fr *frame, args []value) value {
		_, n := fr.run().timeSplit(args[0].(timeVal))
		return n
	}
	in["(time.Time).IsZero"] = func(fr *frame, args []value) value { return Bool(args[0].(timeVal).isZero) }
	in["(time.Time).Before"] = func(fr *frame, args []value) value {
		return fr.run().timeBefore(args[0].(timeVal), args[1].(timeVal))
	}
	in["(time.Time).After"] = func(fr *frame, args []value) value {
		return fr.run().timeBefore(args[1].(timeVal), args[0].(timeVal))
	}
	in["(time.Time).Equal"] = func(fr *frame, args []value) value {
		a, b := args[0].(timeVal), args[1].(timeVal)
		if a.isZero || b.isZero {
			return Bool(a.isZero == b.isZero)
		}
		return fr.run().st.Eq(a.ns, b.ns)
	}
	in["(time.Time).Compare"] = func(fr *frame, args []value) value {
		r := fr.run()
		a, b := args[0].(timeVal), args[1].(timeVal)
		return r.st.Ite(r.timeBefore(a, b), BV(64, ^uint64(0)), r.st.Ite(r.timeBefore(b, a), BV(64, 1), BV(64, 0)))
	}
	in["(time.Time).Sub"] = func(fr *frame, args []value) value {
		r := fr.run()
		return r.st.BvBin(OBvSub, r.timeNs(args[0].(timeVal)), r.timeNs(args[1].(timeVal)))
	}
	in["(time.Time).Add"] = func(fr *frame, args []value) value {
		r := fr.run()
		a := args[0].(timeVal)
		if a.isZero {
			if d := args[1].(*Term); d.IsConst() && d.K == 0 {
				return a
			}
			panic(unsupported("Add on zero time"))
		}
		return timeVal{ns: r.st.BvBin(OBvAdd, a.ns, args[1].(*Term))}
	}
	for _, n := range []string{"UTC", "Local", "Round", "Truncate"} {
		in["(time.Time)."+n] = func(fr *frame, args []value) value { return args[0] }
	}
	in["(time.Time).In"] = func(fr *frame, args []value) value { return args[0] }
	in["(time.Time).String"] = func(fr *frame, args []value) value { return "<time>" }
	in["(time.Time).Format"] = func(fr *frame, args []value) value { return "<time>" }
	in["(time.Time).MarshalBinary"] = func(fr *frame, args []value) value { panic(unsupported("time.MarshalBinary")) }
	in["time.Since"] = func(fr *frame, args []value) value {
		r := fr.run()
		return r.st.BvBin(OBvSub, r.now(fr.th).ns, r.timeNs(args[0].(timeVal)))
	}
	in["time.Until"] = func(fr *frame, args []value) value {
		r := fr.run()
		return r.st.BvBin(OBvSub, r.timeNs(args[0].(timeVal)), r.now(fr.th).ns)
	}
	in["time.Sleep"] = func(fr *frame, args []value) value {
		fr.th.point("Sleep")
		return nil
	}

	timerT := func(fr *frame, name string) (cellv *value, ch *channel) {
		r := fr.run()
		t := r.eng.namedType("time", name)
		cell := new(value)
		s := zero(t).(structure)
		ch = newChannel(r, 1)
		s[fieldIndex(t, "C")] = ch
		*cell = s
		return cell, ch
	}
	in["time.NewTimer"] = func(fr *frame, args []value) value {
		r := fr.run()
		cell, ch := timerT(fr, "Timer")
		ts := &timerState{ch: ch}
		ts.ev = r.addEvent("timer fires", func(th *thread) {
			if len(ch.buf) < ch.capacity {
				ch.buf = append(ch.buf, r.now(th))
				ch.bufvc = append(ch.bufvc, nil)
			}
		})
		if r.cfg.Params["timersNeverFire"] == 1 {
			ts.ev.stopped = true
		}
		r.timers()[cell] = ts
		return cell
	}
	in["time.After"] = func(fr *frame, args []value) value {
		r := fr.run()
		ch := newChannel(r, 1)
		r.addEvent("time.After fires", func(th *thread) {
			ch.buf = append(ch.buf, r.now(th))
			ch.bufvc = append(ch.bufvc, nil)
		})
		return ch
	}
	in["time.AfterFunc"] = func(fr *frame, args []value) value {
		r := fr.run()
		cell, _ := timerT(fr, "Timer")
		f := args[1]
		ts := &timerState{f: f}
		ts.ev = r.addEvent("AfterFunc fires", func(th *thread) {
			nt := r.newThread("", f, nil)
			nt.vc = th.vc.fork(th, nt)
			nt.start()
		})
		r.timers()[cell] = ts
		return cell
	}
	in["(*time.Timer).Stop"] = func(fr *frame, args []value) value {
		r := fr.run()
		fr.th.point("Timer.Stop")
		ts := r.timers()[args[0].(*value)]
		if ts == nil {
			return falseT
		}
		active := !ts.ev.done && !ts.ev.stopped
		ts.ev.stopped = true
		return Bool(active)
	}
	in["(*time.Timer).Reset"] = func(fr *frame, args []value) value {
		r := fr.run()
		fr.th.point("Timer.Reset")
		ts := r.timers()[args[0].(*value)]
		if ts == nil {
			panic(unsupported("Reset of unknown timer"))
		}
		active := !ts.ev.done && !ts.ev.stopped
		ts.ev.stopped = true
		old := ts.ev
		ts.ev = r.addEvent(old.name, old.fire)
		return Bool(active)
	}
	in["time.NewTicker"] = func(fr *frame, args []value) value {
		r := fr.run()
		cell, ch := timerT(fr, "Ticker")
		ts := &timerState{ch: ch, ticker: true}
		maxFires := 1
		if v, ok := r.cfg.Params["tickerFires"]; ok {
			maxFires = v
		}
		var fire func(th *thread)
		fire = func(th *thread) {
			if len(ch.buf) < ch.capacity {
				ch.buf = append(ch.buf, r.now(th))
				ch.bufvc = append(ch.bufvc, nil)
			}
			ts.fires++
			if ts.fires < maxFires && !ts.ev.stopped {
				ts.ev = r.addEvent("ticker fires", fire)
			}
		}
		if maxFires > 0 {
			ts.ev = r.addEvent("ticker fires", fire)
		} else {
			ts.ev = &envEvent{done: true}
		}
		r.timers()[cell] = ts
		return cell
	}
	in["(*time.Ticker).Stop"] = func(fr *frame, args []value) value {
		r := fr.run()
		if ts := r.timers()[args[0].(*value)]; ts != nil {
			ts.ev.stopped = true
		}
		return nil
	}
	in["(*time.Ticker).Reset"] = func(fr *frame, args []value) value { return nil }
	in["time.Tick"] = func(fr *frame, args []value) value { return newChannel(fr.run(), 1) }
	in["(time.Duration).String"] = func(fr *frame, args []value) value {
		t := args[0].(*Term)
		if t.IsConst() {
			return fmt.Sprintf("%dns", t.I64())
		}
		return "<duration>"
	}
}

func (r *Run) timers() map[*value]*timerState {
	if r.timerTab == nil {
		r.timerTab = map[*value]*timerState{}
	}
	return r.timerTab
}
