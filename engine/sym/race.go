package sym

import (
	"fmt"

	"golang.org/x/tools/go/ssa"
)

// vclock is a vector clock indexed by thread id.
type vclock []int

func (v vclock) get(i int) int {
	if i < len(v) {
		return v[i]
	}
	return 0
}

func (v vclock) join(o vclock) vclock {
	n := max(len(v), len(o))
	r := make(vclock, n)
	for i := range r {
		r[i] = max(v.get(i), o.get(i))
	}
	return r
}

func (v *vclock) acquire(o vclock) {
	if len(o) == 0 {
		return
	}
	*v = v.join(o)
}

func (v *vclock) tick(id int) {
	for len(*v) <= id {
		*v = append(*v, 0)
	}
	(*v)[id]++
}

// release returns a snapshot of the thread's clock and advances the thread.
func (v *vclock) release(th *thread) vclock {
	if th.id < 0 {
		return nil
	}
	for len(*v) <= th.id {
		*v = append(*v, 0)
	}
	// snapshot first, then advance: accesses the thread makes AFTER the release carry a larger
	// own-component than the released clock and are therefore not ordered before the acquirer
	snap := append(vclock(nil), (*v)...)
	v.tick(th.id)
	return snap
}

func (v *vclock) fork(parent, child *thread) vclock {
	if parent.id < 0 {
		return nil
	}
	for len(*v) <= parent.id {
		*v = append(*v, 0)
	}
	c := append(vclock(nil), (*v)...)
	v.tick(parent.id)
	c.tick(child.id)
	return c
}

type access struct {
	tid   int
	clk   int
	where string
	tname string
}

type shadow struct {
	w     access
	hasW  bool
	reads []access
}

type raceState struct {
	cells    map[any]*shadow
	reported map[string]bool
	atomics  map[*value]vclock
}

func (th *thread) racing() bool {
	r := th.run
	return r.cfg.Race && r.race != nil && th.id >= 0 && th.inInit == 0 && len(r.threads) > 1
}

func instrWhere(th *thread, instr ssa.Instruction) string {
	if instr == nil {
		return "?"
	}
	fn := instr.Parent()
	p := fn.Prog.Fset.Position(instr.Pos())
	return fmt.Sprintf("%s (%s:%d)", fn.String(), shortFile(p.Filename), p.Line)
}

func shortFile(f string) string {
	for i := len(f) - 1; i >= 0; i-- {
		if f[i] == '/' {
			return f[i+1:]
		}
	}
	return f
}

func (th *thread) hb(a access) bool { // a happens-before current point of th
	return a.tid == th.id || a.clk <= th.vc.get(a.tid)
}

func (th *thread) raceAccess(key any, write bool, instr ssa.Instruction) {
	r := th.run
	s := r.race.cells[key]
	if s == nil {
		s = &shadow{}
		r.race.cells[key] = s
	}
	me := access{tid: th.id, clk: th.vc.get(th.id), where: instrWhere(th, instr), tname: th.name}
	report := func(other access, kind string) {
		msg := fmt.Sprintf("DATA RACE: %s by %s at %s  vs  previous %s by %s at %s", map[bool]string{true: "write", false: "read"}[write], th.name, me.where, kind, other.tname, other.where)
		k := me.where + "|" + other.where
		if r.race.reported[k] {
			return
		}
		r.race.reported[k] = true
		r.violation("race", "race", msg, nil, th.top)
	}
	if s.hasW && !th.hb(s.w) {
		report(s.w, "write")
	}
	if write {
		for _, rd := range s.reads {
			if !th.hb(rd) {
				report(rd, "read")
			}
		}
		s.w, s.hasW = me, true
		s.reads = s.reads[:0]
	} else {
		for i, rd := range s.reads {
			if rd.tid == th.id {
				s.reads[i] = me
				return
			}
		}
		s.reads = append(s.reads, me)
	}
}

func (th *thread) raceCell(p *value, write bool, instr ssa.Instruction) {
	th.raceAccess(p, write, instr)
	// aggregates: the contained field cells are accessed too
	switch v := (*p).(type) {
	case structure:
		for i := range v {
			th.raceCell(&v[i], write, instr)
		}
	case array:
		if len(v) <= 64 {
			for i := range v {
				th.raceCell(&v[i], write, instr)
			}
		}
	}
}

func (th *thread) raceRead(p *value, instr ssa.Instruction) {
	if th.racing() {
		th.raceCell(p, false, instr)
	}
}

func (th *thread) raceWrite(p *value, instr ssa.Instruction) {
	if th.racing() {
		th.raceCell(p, true, instr)
	}
}

func (th *thread) raceMapRead(m *hmap, instr ssa.Instruction) {
	if th.racing() {
		th.raceAccess(m, false, instr)
	}
}

func (th *thread) raceMapWrite(m *hmap, instr ssa.Instruction) {
	if th.racing() {
		th.raceAccess(m, true, instr)
	}
}
