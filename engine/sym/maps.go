package sym

import (
	"fmt"
	"go/types"
	"strings"

	"golang.org/x/tools/go/ssa"
)

// hmap: ordered association list with a hash index for concrete keys.
type hmap struct {
	keyT types.Type
	ents []*ment
	idx  map[string]*ment // concrete canonical key -> entry (valid only when nsym == 0)
	nsym int
}

type ment struct {
	k, v    value
	ck      string // canonical key when concrete
	conc    bool
	deleted bool
}

func newMap(keyT types.Type) *hmap {
	return &hmap{keyT: keyT, idx: map[string]*ment{}}
}

func (m *hmap) length() int { return len(m.ents) }

// canonKey returns a canonical string for fully concrete keys.
func canonKey(v value) (string, bool) {
	var sb strings.Builder
	ok := writeCanon(&sb, v)
	return sb.String(), ok
}

func writeCanon(sb *strings.Builder, v value) bool {
	switch v := v.(type) {
	case *Term:
		if !v.IsConst() {
			return false
		}
		if v.Kind == KF64 || v.Kind == KF32 {
			f := v.F64Val()
			if f != f {
				return false // NaN never equals anything
			}
			if f == 0 {
				sb.WriteString("f0;")
				return true
			}
		}
		fmt.Fprintf(sb, "%d.%d:%x;", v.Kind, v.W, v.K)
		return true
	case string:
		fmt.Fprintf(sb, "s%d:%s;", len(v), v)
		return true
	case symstr:
		return false
	case iface:
		if v.t == nil {
			sb.WriteString("nil;")
			return true
		}
		sb.WriteString("i<" + v.t.String() + ">")
		return writeCanon(sb, v.v)
	case structure:
		sb.WriteString("{")
		for _, f := range v {
			if !writeCanon(sb, f) {
				return false
			}
		}
		sb.WriteString("}")
		return true
	case array:
		sb.WriteString("[")
		for _, f := range v {
			if !writeCanon(sb, f) {
				return false
			}
		}
		sb.WriteString("]")
		return true
	case *value:
		fmt.Fprintf(sb, "p%p;", v)
		return true
	case *channel:
		fmt.Fprintf(sb, "c%p;", v)
		return true
	case *hmap:
		fmt.Fprintf(sb, "m%p;", v)
		return true
	case *native:
		fmt.Fprintf(sb, "n%p;", v)
		return true
	case *ssa.Function:
		fmt.Fprintf(sb, "fn%p;", v)
		return true
	case timeVal:
		if v.isZero {
			sb.WriteString("tz;")
			return true
		}
		return writeCanon(sb, v.ns)
	}
	panic(unsupported(fmt.Sprintf("map key of type %T", v)))
}

// find locates the entry equal to key, forking on symbolic equalities.
func (m *hmap) find(fr *frame, key value) *ment {
	ck, conc := canonKey(key)
	if conc && m.nsym == 0 {
		return m.idx[ck]
	}
	r := fr.run()
	for _, e := range m.ents {
		if conc && e.conc {
			if e.ck == ck {
				return e
			}
			continue
		}
		eq := valEq(fr, m.keyT, key, e.k)
		if r.decideKind(eq, "mapkey") {
			return e
		}
	}
	return nil
}

func (m *hmap) lookup(fr *frame, key value) (value, bool) {
	if e := m.find(fr, key); e != nil {
		return e.v, true
	}
	return nil, false
}

func (m *hmap) insert(fr *frame, key, v value) {
	if e := m.find(fr, key); e != nil {
		e.v = v
		return
	}
	ck, conc := canonKey(key)
	e := &ment{k: key, v: v, ck: ck, conc: conc}
	m.ents = append(m.ents, e)
	if conc {
		m.idx[ck] = e
	} else {
		m.nsym++
	}
}

func (m *hmap) delete(fr *frame, key value) {
	e := m.find(fr, key)
	if e == nil {
		return
	}
	e.deleted = true
	for i, x := range m.ents {
		if x == e {
			m.ents = append(m.ents[:i:i], m.ents[i+1:]...)
			break
		}
	}
	if e.conc {
		delete(m.idx, e.ck)
	} else {
		m.nsym--
	}
}

func (m *hmap) clear() {
	for _, e := range m.ents {
		e.deleted = true
	}
	m.ents = nil
	m.idx = map[string]*ment{}
	m.nsym = 0
}

type mapIter struct {
	ents []*ment
	pos  int
}

func (m *hmap) iterator(fr *frame) *mapIter {
	ents := append([]*ment(nil), m.ents...)
	r := fr.run()
	if r.cfg.MapOrderNondet && len(ents) > 1 && len(ents) <= r.cfg.MapOrderMax {
		// choose a permutation by successive choices
		perm := make([]*ment, 0, len(ents))
		rest := ents
		for len(rest) > 1 {
			c := r.choose(len(rest), "maporder")
			perm = append(perm, rest[c])
			rest = append(append([]*ment(nil), rest[:c]...), rest[c+1:]...)
		}
		perm = append(perm, rest[0])
		ents = perm
	}
	return &mapIter{ents: ents}
}

func (it *mapIter) next(fr *frame) tuple {
	for it.pos < len(it.ents) {
		e := it.ents[it.pos]
		it.pos++
		if e.deleted {
			continue
		}
		return tuple{trueT, e.k, copyVal(e.v)}
	}
	return tuple{falseT, nil, nil}
}
