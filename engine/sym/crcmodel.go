package sym

type crcApp struct {
	args []*Term
	res  *Term
}

// crcModel: CRC32 as an uninterpreted function per input length. With harness parameter
// crcInjective=1 the engine adds, for every pair of applications on equal-length inputs,
// args1 != args2 => crc1 != crc2 (assumption CRC-INJ: 2^-32 collisions are outside the claim).
func crcModel(fr *frame, bs []*Term) value {
	r := fr.run()
	res := ufBytes(fr, "crc32", 32, bs).(*Term)
	if r.cfg.Params["crcInjective"] != 1 {
		return res
	}
	for _, a := range r.crcApps {
		if len(a.args) != len(bs) || a.res == res {
			continue
		}
		same := bytesEq(r.st, a.args, bs)
		r.addPC(r.st.Or(same, r.st.Not(r.st.Eq(a.res, res))))
	}
	r.crcApps = append(r.crcApps, crcApp{args: bs, res: res})
	return res
}

// xxhModel: xxhash.Sum64 as an uninterpreted function per input length. With harness parameter
// hashInjective=1 the engine adds, for every pair of applications in a run, "different input
// => different hash" (inputs of different lengths included): 2^-64 collisions are outside the
// claim, which is what "injective modulo hash collisions" means.
func xxhModel(fr *frame, bs []*Term) value {
	r := fr.run()
	res := ufBytes(fr, "xxh64", 64, bs).(*Term)
	if r.cfg.Params["hashInjective"] != 1 {
		return res
	}
	for _, a := range r.xxhApps {
		if a.res == res {
			continue
		}
		if len(a.args) != len(bs) {
			r.addPC(r.st.Not(r.st.Eq(a.res, res)))
			continue
		}
		same := bytesEq(r.st, a.args, bs)
		r.addPC(r.st.Or(same, r.st.Not(r.st.Eq(a.res, res))))
	}
	r.xxhApps = append(r.xxhApps, crcApp{args: bs, res: res})
	return res
}

