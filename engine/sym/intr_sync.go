package sym

import (
	"fmt"
	"go/types"
	"hash/crc32"
	"math/bits"
	"strings"

	"golang.org/x/tools/go/ssa"
)

type onceState struct {
	done    bool
	running bool
	vc      vclock
}

func (r *Run) once(p *value) *onceState {
	if r.w.onces == nil {
		r.w.onces = map[*value]*onceState{}
	}
	o := r.w.onces[p]
	if o == nil {
		o = &onceState{}
		r.w.onces[p] = o
	}
	return o
}

func (r *Run) syncMap(p *value) *hmap {
	if r.w.syncMaps == nil {
		r.w.syncMaps = map[*value]*hmap{}
	}
	m := r.w.syncMaps[p]
	if m == nil {
		m = newMap(types.NewInterfaceType(nil, nil))
		r.w.syncMaps[p] = m
	}
	return m
}

func ptrArg(v value) *value {
	p, ok := v.(*value)
	if !ok || p == nil {
		panic(rtPanic("invalid memory address or nil pointer dereference (nil sync object)"))
	}
	return p
}

func registerSyncIntrinsics(e *Engine) {
	in := e.intr
	in["(*sync.Mutex).Lock"] = func(fr *frame, args []value) value { mutexLock(fr, ptrArg(args[0])); return nil }
	in["(*sync.Mutex).Unlock"] = func(fr *frame, args []value) value { mutexUnlock(fr, ptrArg(args[0])); return nil }
	in["(*sync.Mutex).TryLock"] = func(fr *frame, args []value) value { return Bool(mutexTryLock(fr, ptrArg(args[0]))) }
	in["(*sync.RWMutex).Lock"] = in["(*sync.Mutex).Lock"]
	in["(*sync.RWMutex).Unlock"] = in["(*sync.Mutex).Unlock"]
	in["(*sync.RWMutex).TryLock"] = in["(*sync.Mutex).TryLock"]
	in["(*sync.RWMutex).RLock"] = func(fr *frame, args []value) value { rwRLock(fr, ptrArg(args[0])); return nil }
	in["(*sync.RWMutex).RUnlock"] = func(fr *frame, args []value) value { rwRUnlock(fr, ptrArg(args[0])); return nil }

	// Cond: struct{noCopy; L Locker; notify; checker}
	condL := func(fr *frame, p *value) iface {
		st := (*p).(structure)
		idx := fieldIndex(fr.run().eng.namedType("sync", "Cond"), "L")
		return st[idx].(iface)
	}
	in["(*sync.Cond).Wait"] = func(fr *frame, args []value) value {
		th := fr.th
		p := ptrArg(args[0])
		c := th.run.cond(p)
		L := condL(fr, p)
		th.point("Cond.Wait")
		w := &condWaiter{th: th}
		c.waiters = append(c.waiters, w)
		callMethod(fr, L, "Unlock")
		th.block("Cond.Wait", func() bool { return w.signalled })
		th.vc.acquire(w.vc)
		callMethod(fr, L, "Lock")
		return nil
	}
	in["(*sync.Cond).Signal"] = func(fr *frame, args []value) value {
		th := fr.th
		c := th.run.cond(ptrArg(args[0]))
		th.point("Cond.Signal")
		for i, w := range c.waiters {
			if !w.signalled {
				w.signalled = true
				w.vc = th.vc.release(th)
				c.waiters = append(c.waiters[:i:i], c.waiters[i+1:]...)
				break
			}
		}
		return nil
	}
	in["(*sync.Cond).Broadcast"] = func(fr *frame, args []value) value {
		th := fr.th
		c := th.run.cond(ptrArg(args[0]))
		th.point("Cond.Broadcast")
		snap := th.vc.release(th)
		for _, w := range c.waiters {
			w.signalled = true
			w.vc = snap
		}
		c.waiters = nil
		return nil
	}

	in["(*sync.WaitGroup).Add"] = func(fr *frame, args []value) value {
		th := fr.th
		g := th.run.wgroup(ptrArg(args[0]))
		d := int(th.run.concreteInt(args[1].(*Term), "WaitGroup.Add"))
		th.point("WaitGroup.Add")
		g.n += d
		if g.n < 0 {
			panic(targetPanic{v: "sync: negative WaitGroup counter"})
		}
		if d < 0 {
			g.vc = g.vc.join(th.vc.release(th))
		}
		return nil
	}
	in["(*sync.WaitGroup).Done"] = func(fr *frame, args []value) value {
		th := fr.th
		g := th.run.wgroup(ptrArg(args[0]))
		th.point("WaitGroup.Done")
		g.n--
		if g.n < 0 {
			panic(targetPanic{v: "sync: negative WaitGroup counter"})
		}
		g.vc = g.vc.join(th.vc.release(th))
		return nil
	}
	in["(*sync.WaitGroup).Wait"] = func(fr *frame, args []value) value {
		th := fr.th
		g := th.run.wgroup(ptrArg(args[0]))
		th.point("WaitGroup.Wait")
		th.block("WaitGroup.Wait", func() bool { return g.n == 0 })
		th.vc.acquire(g.vc)
		return nil
	}
	in["(*sync.WaitGroup).Go"] = func(fr *frame, args []value) value {
		th := fr.th
		g := th.run.wgroup(ptrArg(args[0]))
		g.n++
		f := args[1]
		p := args[0]
		nt := th.run.newThread("", &nativeFunc{name: "wg.Go", f: func(caller *frame, _ []value) value {
			defer func() {}()
			call(caller.th, caller, 0, f, nil)
			return nil
		}}, nil)
		// run f then Done via wrapper thread body
		nt.fn = &nativeFunc{name: "wg.Go", f: func(_ *frame, _ []value) value {
			fr2 := &frame{th: nt, fn: fr.fn}
			call(nt, fr2, 0, f, nil)
			in["(*sync.WaitGroup).Done"](fr2, []value{p})
			return nil
		}}
		nt.vc = th.vc.fork(th, nt)
		nt.start()
		th.point("go " + nt.name)
		return nil
	}

	in["(*sync.Once).Do"] = func(fr *frame, args []value) value {
		th := fr.th
		o := th.run.once(ptrArg(args[0]))
		th.point("Once.Do")
		if o.done {
			th.vc.acquire(o.vc)
			return nil
		}
		if o.running {
			th.block("Once.Do", func() bool { return o.done })
			th.vc.acquire(o.vc)
			return nil
		}
		o.running = true
		defer func() {
			o.done = true
			o.vc = th.vc.release(th)
		}()
		call(th, fr, 0, args[1], nil)
		return nil
	}

	// sync.Map
	in["(*sync.Map).Load"] = func(fr *frame, args []value) value {
		p := ptrArg(args[0])
		fr.th.point("sync.Map.Load")
		m := fr.run().syncMap(p)
		v, ok := m.lookup(fr, args[1])
		if !ok {
			return tuple{iface{}, falseT}
		}
		return tuple{v, trueT}
	}
	in["(*sync.Map).Store"] = func(fr *frame, args []value) value {
		p := ptrArg(args[0])
		fr.th.point("sync.Map.Store")
		fr.run().syncMap(p).insert(fr, args[1], args[2])
		return nil
	}
	in["(*sync.Map).LoadOrStore"] = func(fr *frame, args []value) value {
		p := ptrArg(args[0])
		fr.th.point("sync.Map.LoadOrStore")
		m := fr.run().syncMap(p)
		if v, ok := m.lookup(fr, args[1]); ok {
			return tuple{v, trueT}
		}
		m.insert(fr, args[1], args[2])
		return tuple{args[2], falseT}
	}
	in["(*sync.Map).LoadAndDelete"] = func(fr *frame, args []value) value {
		p := ptrArg(args[0])
		fr.th.point("sync.Map.LoadAndDelete")
		m := fr.run().syncMap(p)
		if v, ok := m.lookup(fr, args[1]); ok {
			m.delete(fr, args[1])
			return tuple{v, trueT}
		}
		return tuple{iface{}, falseT}
	}
	in["(*sync.Map).Delete"] = func(fr *frame, args []value) value {
		p := ptrArg(args[0])
		fr.th.point("sync.Map.Delete")
		fr.run().syncMap(p).delete(fr, args[1])
		return nil
	}
	in["(*sync.Map).Swap"] = func(fr *frame, args []value) value {
		p := ptrArg(args[0])
		fr.th.point("sync.Map.Swap")
		m := fr.run().syncMap(p)
		old, ok := m.lookup(fr, args[1])
		m.insert(fr, args[1], args[2])
		if !ok {
			return tuple{iface{}, falseT}
		}
		return tuple{old, trueT}
	}
	in["(*sync.Map).CompareAndDelete"] = func(fr *frame, args []value) value {
		p := ptrArg(args[0])
		fr.th.point("sync.Map.CompareAndDelete")
		m := fr.run().syncMap(p)
		if v, ok := m.lookup(fr, args[1]); ok {
			if fr.run().decide(valEq(fr, nil, v, args[2])) {
				m.delete(fr, args[1])
				return trueT
			}
		}
		return falseT
	}
	in["(*sync.Map).Range"] = func(fr *frame, args []value) value {
		p := ptrArg(args[0])
		fr.th.point("sync.Map.Range")
		m := fr.run().syncMap(p)
		it := m.iterator(fr)
		for {
			t := it.next(fr)
			if t[0].(*Term).K == 0 {
				break
			}
			res := call(fr.th, fr, 0, args[1], []value{t[1], t[2]}).(*Term)
			if !fr.run().decide(res) {
				break
			}
			fr.th.point("sync.Map.Range step")
		}
		return nil
	}
	in["(*sync.Map).Clear"] = func(fr *frame, args []value) value {
		fr.th.point("sync.Map.Clear")
		fr.run().syncMap(ptrArg(args[0])).clear()
		return nil
	}
	in["(*sync.Pool).Get"] = func(fr *frame, args []value) value {
		p := ptrArg(args[0])
		st := (*p).(structure)
		idx := fieldIndex(fr.run().eng.namedType("sync", "Pool"), "New")
		if f := st[idx]; f != nil {
			if fn, ok := f.(*ssa.Function); ok && fn == nil {
				return iface{}
			}
			return call(fr.th, fr, 0, f, nil)
		}
		return iface{}
	}
	in["(*sync.Pool).Put"] = func(fr *frame, args []value) value { return nil }

	// ---- sync/atomic functions on plain cells ----
	for _, ty := range []string{"Int32", "Int64", "Uint32", "Uint64", "Uintptr", "Pointer"} {
		ty := ty
		in["sync/atomic.Load"+ty] = func(fr *frame, args []value) value {
			p := ptrArg(args[0])
			fr.th.point("atomic.Load")
			fr.th.atomicSync(p, false)
			return *p
		}
		in["sync/atomic.Store"+ty] = func(fr *frame, args []value) value {
			p := ptrArg(args[0])
			fr.th.point("atomic.Store")
			fr.th.atomicSync(p, true)
			*p = args[1]
			return nil
		}
		in["sync/atomic.Swap"+ty] = func(fr *frame, args []value) value {
			p := ptrArg(args[0])
			fr.th.point("atomic.Swap")
			fr.th.atomicSync(p, true)
			old := *p
			*p = args[1]
			return old
		}
		in["sync/atomic.CompareAndSwap"+ty] = func(fr *frame, args []value) value {
			p := ptrArg(args[0])
			fr.th.point("atomic.CAS")
			fr.th.atomicSync(p, true)
			if fr.run().decide(valEq(fr, nil, *p, args[1])) {
				*p = args[2]
				return trueT
			}
			return falseT
		}
		if ty != "Pointer" {
			in["sync/atomic.Add"+ty] = func(fr *frame, args []value) value {
				p := ptrArg(args[0])
				fr.th.point("atomic.Add")
				fr.th.atomicSync(p, true)
				n := fr.run().st.BvBin(OBvAdd, (*p).(*Term), args[1].(*Term))
				*p = n
				return n
			}
			in["sync/atomic.And"+ty] = func(fr *frame, args []value) value {
				p := ptrArg(args[0])
				fr.th.point("atomic.And")
				old := (*p).(*Term)
				*p = fr.run().st.BvBin(OBvAnd, old, args[1].(*Term))
				return old
			}
			in["sync/atomic.Or"+ty] = func(fr *frame, args []value) value {
				p := ptrArg(args[0])
				fr.th.point("atomic.Or")
				old := (*p).(*Term)
				*p = fr.run().st.BvBin(OBvOr, old, args[1].(*Term))
				return old
			}
		}
	}
	// atomic.Value: struct{ v any }
	in["(*sync/atomic.Value).Load"] = func(fr *frame, args []value) value {
		p := ptrArg(args[0])
		fr.th.point("atomic.Value.Load")
		fr.th.atomicSync(p, false)
		return (*p).(structure)[0]
	}
	in["(*sync/atomic.Value).Store"] = func(fr *frame, args []value) value {
		p := ptrArg(args[0])
		fr.th.point("atomic.Value.Store")
		fr.th.atomicSync(p, true)
		(*p).(structure)[0] = args[1]
		return nil
	}
	in["(*sync/atomic.Value).Swap"] = func(fr *frame, args []value) value {
		p := ptrArg(args[0])
		fr.th.point("atomic.Value.Swap")
		old := (*p).(structure)[0]
		(*p).(structure)[0] = args[1]
		return old
	}
	in["(*sync/atomic.Value).CompareAndSwap"] = func(fr *frame, args []value) value {
		p := ptrArg(args[0])
		fr.th.point("atomic.Value.CAS")
		cur := (*p).(structure)[0]
		if fr.run().decide(valEq(fr, nil, cur, args[1])) {
			(*p).(structure)[0] = args[2]
			return trueT
		}
		return falseT
	}
}

// atomicSync: atomics are sequentially consistent synchronisation on the cell.
func (th *thread) atomicSync(p *value, write bool) {
	r := th.run
	if !r.cfg.Race || r.race == nil || th.id < 0 {
		return
	}
	key := struct {
		p *value
		a bool
	}{p, true}
	s := r.race.cells[key]
	if s == nil {
		s = &shadow{}
		r.race.cells[key] = s
	}
	// use shadow.reads[0].clk slot to hold nothing; keep a vclock per atomic cell in a side map
	if r.race.atomics == nil {
		r.race.atomics = map[*value]vclock{}
	}
	th.vc.acquire(r.race.atomics[p])
	if write {
		r.race.atomics[p] = r.race.atomics[p].join(th.vc.release(th))
	}
}

// patternSync matches generic atomic.Pointer[T] methods and typed atomics built on unsafe.
func patternSync(e *Engine, fn *ssa.Function, name string) intrinsicFn {
	if strings.HasPrefix(name, "(*sync/atomic.Pointer[") {
		switch {
		case strings.HasSuffix(name, ").Load"):
			return func(fr *frame, args []value) value {
				p := ptrArg(args[0])
				fr.th.point("atomic.Pointer.Load")
				fr.th.atomicSync(p, false)
				st := (*p).(structure)
				return st[len(st)-1]
			}
		case strings.HasSuffix(name, ").Store"):
			return func(fr *frame, args []value) value {
				p := ptrArg(args[0])
				fr.th.point("atomic.Pointer.Store")
				fr.th.atomicSync(p, true)
				st := (*p).(structure)
				st[len(st)-1] = args[1]
				return nil
			}
		case strings.HasSuffix(name, ").Swap"):
			return func(fr *frame, args []value) value {
				p := ptrArg(args[0])
				fr.th.point("atomic.Pointer.Swap")
				st := (*p).(structure)
				old := st[len(st)-1]
				st[len(st)-1] = args[1]
				return old
			}
		case strings.HasSuffix(name, ").CompareAndSwap"):
			return func(fr *frame, args []value) value {
				p := ptrArg(args[0])
				fr.th.point("atomic.Pointer.CAS")
				st := (*p).(structure)
				if st[len(st)-1].(*value) == args[1].(*value) {
					st[len(st)-1] = args[2]
					return trueT
				}
				return falseT
			}
		}
	}
	return nil
}

// ---------- concrete hashes ----------

func concreteHash(name string, b []byte) uint64 {
	switch name {
	case "crc32":
		return uint64(crc32.ChecksumIEEE(b))
	case "xxh64":
		return xxh64(b)
	case "maphash":
		// any fixed injective-enough function of the bytes: the real one is seeded per process
		return xxh64(b) ^ 0x9e3779b97f4a7c15
	}
	panic(fmt.Sprintf("concreteHash %s", name))
}

const (
	xxPrime1 = 11400714785074694791
	xxPrime2 = 14029467366897019727
	xxPrime3 = 1609587929392839161
	xxPrime4 = 9650029242287828579
	xxPrime5 = 2870177450012600261
)

func xxRound(acc, input uint64) uint64 {
	acc += input * xxPrime2
	acc = bits.RotateLeft64(acc, 31)
	acc *= xxPrime1
	return acc
}

func xxMerge(acc, val uint64) uint64 {
	val = xxRound(0, val)
	acc ^= val
	acc = acc*xxPrime1 + xxPrime4
	return acc
}

func le64(b []byte) uint64 {
	return uint64(b[0]) | uint64(b[1])<<8 | uint64(b[2])<<16 | uint64(b[3])<<24 | uint64(b[4])<<32 | uint64(b[5])<<40 | uint64(b[6])<<48 | uint64(b[7])<<56
}
func le32(b []byte) uint32 {
	return uint32(b[0]) | uint32(b[1])<<8 | uint32(b[2])<<16 | uint32(b[3])<<24
}

// xxh64 is XXH64 with seed 0 (as github.com/cespare/xxhash/v2).
func xxh64(b []byte) uint64 {
	n := len(b)
	var h uint64
	if n >= 32 {
		v1 := uint64(xxPrime1)
		v1 += xxPrime2
		v2 := uint64(xxPrime2)
		v3 := uint64(0)
		v4 := uint64(0)
		v4 -= xxPrime1
		for len(b) >= 32 {
			v1 = xxRound(v1, le64(b[0:8]))
			v2 = xxRound(v2, le64(b[8:16]))
			v3 = xxRound(v3, le64(b[16:24]))
			v4 = xxRound(v4, le64(b[24:32]))
			b = b[32:]
		}
		h = bits.RotateLeft64(v1, 1) + bits.RotateLeft64(v2, 7) + bits.RotateLeft64(v3, 12) + bits.RotateLeft64(v4, 18)
		h = xxMerge(h, v1)
		h = xxMerge(h, v2)
		h = xxMerge(h, v3)
		h = xxMerge(h, v4)
	} else {
		h = xxPrime5
	}
	h += uint64(n)
	for ; len(b) >= 8; b = b[8:] {
		k1 := xxRound(0, le64(b[:8]))
		h ^= k1
		h = bits.RotateLeft64(h, 27)*xxPrime1 + xxPrime4
	}
	if len(b) >= 4 {
		h ^= uint64(le32(b[:4])) * xxPrime1
		h = bits.RotateLeft64(h, 23)*xxPrime2 + xxPrime3
		b = b[4:]
	}
	for ; len(b) > 0; b = b[1:] {
		h ^= uint64(b[0]) * xxPrime5
		h = bits.RotateLeft64(h, 11) * xxPrime1
	}
	h ^= h >> 33
	h *= xxPrime2
	h ^= h >> 29
	h *= xxPrime3
	h ^= h >> 32
	return h
}
