package sym

import (
	"fmt"
	"go/types"
	"sync"

	"golang.org/x/tools/go/ssa"
)

// thread is an interpreter goroutine. Exactly one thread holds the baton at any time.
type thread struct {
	run       *Run
	id        int
	name      string
	depth     int
	inInit    int
	wake      chan struct{}
	finished  bool
	daemon    bool
	waitFor   func() bool // nil: runnable; else enabled iff waitFor()
	waitDesc  string
	top       *frame
	vc        vclock
	fn        value
	args      []value
	noPreempt int
	spawned   bool                    // started by a `go` statement of the code under test (not by the harness)
	spinAt    map[ssa.Instruction]int // polls (non-blocking select taking default) since another thread last ran
	spinEpoch int
	mustYield bool
}

// envEvent is an environment transition (timer firing, context deadline) that may
// happen at any scheduling point after its creation.
type envEvent struct {
	name    string
	fire    func(th *thread)
	done    bool
	stopped bool
}

func (r *Run) newThread(name string, fn value, args []value) *thread {
	th := &thread{run: r, id: r.nextTid, name: name, wake: make(chan struct{}, 1), fn: fn, args: args}
	r.nextTid++
	if th.name == "" {
		th.name = fmt.Sprintf("g%d", th.id)
	}
	r.threads = append(r.threads, th)
	return th
}

var runWG sync.WaitGroup

// start launches the OS goroutine for th; it waits for the baton before running.
func (th *thread) start() {
	r := th.run
	r.w.wg.Add(1)
	go func() {
		defer r.w.wg.Done()
		defer func() {
			p := recover()
			if p == nil {
				return
			}
			if ap, ok := p.(abortPath); ok {
				if ap.kind == "killed" {
					return
				}
				r.finish(&ap)
				return
			}
			if tp, ok := p.(targetPanic); ok {
				// uncaught panic at top of a thread: process crash
				r.schedLog = append(r.schedLog, fmt.Sprintf("%s: PANIC %s", th.name, tp.String()))
				func() {
					defer func() {
						if p2 := recover(); p2 != nil {
							if ap, ok := p2.(abortPath); ok {
								r.finish(&ap)
								return
							}
							r.finish(&abortPath{"internal", fmt.Sprint(p2)})
						}
					}()
					r.violation("panic", "panic", "uncaught panic: "+tp.String(), nil, th.top)
					r.finish(&abortPath{"done", "uncaught panic"})
				}()
				return
			}
			where := ""
			if th.top != nil {
				where = fmt.Sprintf(" in %v", stackTrace(th.top))
			}
			r.finish(&abortPath{"internal", fmt.Sprintf("%v%s", p, where)})
		}()
		th.waitBaton()
		call(th, nil, 0, th.fn, th.args)
		th.finished = true
		th.reschedule(true)
	}()
}

func (th *thread) waitBaton() {
	select {
	case <-th.wake:
	case <-th.run.killCh:
		panic(abortPath{"killed", ""})
	}
	th.run.cur = th
}

// finish ends the run (first caller wins).
func (r *Run) finish(ap *abortPath) {
	if r.outcome == nil {
		r.outcome = ap
		close(r.killCh)
		close(r.doneCh)
	}
}

func (th *thread) enabled() bool {
	if th.finished {
		return false
	}
	return th.waitFor == nil || th.waitFor()
}

// point is a scheduling point before a visible operation of the current thread.
func (th *thread) point(desc string) {
	r := th.run
	if th.inInit > 0 || th.id < 0 || len(r.threads) <= 1 && len(r.events) == 0 {
		return
	}
	th.reschedule(false)
	if len(r.schedLog) < 400 {
		r.schedLog = append(r.schedLog, th.name+": "+desc)
	}
}

// block parks the current thread until cond() holds.
func (th *thread) block(desc string, cond func() bool) {
	if cond() {
		return
	}
	if th.inInit > 0 || th.id < 0 {
		panic(unsupported("blocking operation during package init: " + desc))
	}
	th.waitFor = cond
	th.waitDesc = desc
	th.reschedule(false)
	th.waitFor = nil
	th.waitDesc = ""
}

func (th *thread) spinTotal() int {
	n := 0
	for _, c := range th.spinAt {
		if c > n {
			n = c
		}
	}
	return n
}

// reschedule picks the next thread/event to run. Called by the baton holder.
func (th *thread) reschedule(exiting bool) {
	r := th.run
	for {
		var cands []*thread
		for _, t := range r.threads {
			if t.enabled() {
				cands = append(cands, t)
			}
		}
		var evs []*envEvent
		for _, e := range r.events {
			if !e.done && !e.stopped {
				evs = append(evs, e)
			}
		}
		if r.cfg.BgLowPrio {
			// sequential harness: goroutines started by the code under test and environment
			// events (timers) run only when no harness thread can run
			var fg []*thread
			for _, t := range cands {
				if !t.spawned {
					fg = append(fg, t)
				}
			}
			if len(fg) > 0 {
				cands, evs = fg, nil
			} else {
				harnessLeft := false
				for _, t := range r.threads {
					if !t.spawned && !t.finished && !t.daemon {
						harnessLeft = true
					}
				}
				if !harnessLeft {
					// every harness thread has finished: background activity is not explored further
					cands, evs = nil, nil
				}
			}
		}
		selfEnabled := !exiting && th.enabled()
		if th.mustYield && selfEnabled {
			var others []*thread
			for _, t := range cands {
				if t != th {
					others = append(others, t)
				}
			}
			if len(others) == 0 && len(evs) == 0 && th.spinTotal() < 512 {
				// nobody to give way to yet: keep going (a bounded sequential loop ends by itself)
				return
			}
			if len(others) == 0 && len(evs) == 0 {
				r.violation("deadlock", "deadlock", fmt.Sprintf("livelock: %s polls in a loop and no other thread or event can make progress", th.name), nil, th.top)
				r.finish(&abortPath{"done", "livelock"})
				panic(abortPath{"killed", ""})
			}
			// give way without charging a preemption
			cands, selfEnabled = others, false
		}
		if len(cands) == 0 && len(evs) == 0 && len(r.quiesce) > 0 && !r.quiesceRan {
			r.quiesceRan = true
			cbs := r.quiesce
			qt := r.newThread("quiescence", &nativeFunc{name: "quiescence", f: func(_ *frame, _ []value) value { return nil }}, nil)
			qt.fn = &nativeFunc{name: "quiescence", f: func(_ *frame, _ []value) value {
				for _, cb := range cbs {
					call(qt, nil, 0, cb, nil)
				}
				return nil
			}}
			qt.vc = th.vc
			for _, t := range r.threads {
				qt.vc = qt.vc.join(t.vc)
			}
			qt.start()
			continue
		}
		if len(cands) == 0 && len(evs) == 0 {
			// quiescence: finished, or deadlock
			var stuck []*thread
			harnessStuck := false
			for _, t := range r.threads {
				if !t.finished && !t.daemon {
					stuck = append(stuck, t)
					if !t.spawned {
						harnessStuck = true
					}
				}
			}
			// goroutines of the code under test that are still parked when every harness thread
			// has finished are not a deadlock (the process would simply keep them parked)
			if len(stuck) > 0 && harnessStuck {
				msg := "deadlock: "
				for _, t := range stuck {
					msg += fmt.Sprintf("[%s blocked on %s] ", t.name, t.waitDesc)
				}
				r.violation("deadlock", "deadlock", msg, nil, nil)
				r.finish(&abortPath{"done", "deadlock"})
			} else {
				r.finish(&abortPath{"ok", ""})
			}
			panic(abortPath{"killed", ""})
		}
		// options: threads (self first if enabled) then events
		n := len(cands) + len(evs)
		choice := 0
		order := cands
		if selfEnabled {
			// self first so that choice 0 = continue
			order = []*thread{th}
			for _, t := range cands {
				if t != th {
					order = append(order, t)
				}
			}
			if th.noPreempt > 0 || r.preempt >= r.cfg.Preemptions {
				n = 1
			}
		}
		if n > 1 {
			choice = r.choose(n, "sched")
		}
		if selfEnabled && choice != 0 {
			r.preempt++
		}
		if choice >= len(order) {
			e := evs[choice-len(order)]
			e.done = true
			r.schedLog = append(r.schedLog, "env: "+e.name)
			e.fire(th)
			r.schedEpoch++
			continue // state changed; pick again
		}
		next := order[choice]
		if next == th {
			return
		}
		r.schedEpoch++
		next.wake <- struct{}{}
		if exiting {
			panic(abortPath{"killed", ""}) // unwinds this goroutine silently
		}
		th.waitBaton()
		if th.enabled() {
			return
		}
		// woken but not enabled (should not happen): loop
	}
}

func (th *thread) spawn(fn value, args []value, instr *ssa.Go) {
	r := th.run
	if th.inInit > 0 || th.id < 0 {
		return // goroutines started by package init are ignored
	}
	nt := r.newThread("", fn, args)
	nt.spawned = true
	nt.vc = th.vc.fork(th, nt)
	nt.start()
	if !r.cfg.BgLowPrio {
		th.point("go " + nt.name)
	}
}

// ---------- mutexes ----------

type mutexState struct {
	held    bool
	owner   *thread
	readers int
	vc      vclock // release clock
	rvc     vclock
}

func (r *Run) mutex(p *value) *mutexState {
	if r.w.mutexes == nil {
		r.w.mutexes = map[*value]*mutexState{}
	}
	m := r.w.mutexes[p]
	if m == nil {
		m = &mutexState{}
		r.w.mutexes[p] = m
	}
	return m
}

func mutexLock(fr *frame, p *value) {
	th := fr.th
	m := th.run.mutex(p)
	th.point("Lock")
	th.block("Mutex.Lock", func() bool { return !m.held && m.readers == 0 })
	m.held = true
	m.owner = th
	th.vc.acquire(m.vc)
	th.vc.acquire(m.rvc)
}

func mutexTryLock(fr *frame, p *value) bool {
	th := fr.th
	m := th.run.mutex(p)
	th.point("TryLock")
	if m.held || m.readers > 0 {
		return false
	}
	m.held = true
	m.owner = th
	th.vc.acquire(m.vc)
	return true
}

func mutexUnlock(fr *frame, p *value) {
	th := fr.th
	m := th.run.mutex(p)
	if !m.held {
		panic(targetPanic{rt: true, msg: "fatal error: sync: unlock of unlocked mutex"})
	}
	th.point("Unlock")
	m.held = false
	m.owner = nil
	m.vc = th.vc.release(th)
}

func rwRLock(fr *frame, p *value) {
	th := fr.th
	m := th.run.mutex(p)
	th.point("RLock")
	th.block("RWMutex.RLock", func() bool { return !m.held })
	m.readers++
	th.vc.acquire(m.vc)
}

func rwRUnlock(fr *frame, p *value) {
	th := fr.th
	m := th.run.mutex(p)
	if m.readers <= 0 {
		panic(targetPanic{rt: true, msg: "fatal error: sync: RUnlock of unlocked RWMutex"})
	}
	th.point("RUnlock")
	m.readers--
	m.rvc = m.rvc.join(th.vc.release(th))
}

// ---------- cond ----------

type condWaiter struct {
	th        *thread
	signalled bool
	vc        vclock
}

type condState struct {
	waiters []*condWaiter
}

func (r *Run) cond(p *value) *condState {
	if r.w.conds == nil {
		r.w.conds = map[*value]*condState{}
	}
	c := r.w.conds[p]
	if c == nil {
		c = &condState{}
		r.w.conds[p] = c
	}
	return c
}

// ---------- waitgroup ----------

type wgState struct {
	n  int
	vc vclock
}

func (r *Run) wgroup(p *value) *wgState {
	if r.w.wgs == nil {
		r.w.wgs = map[*value]*wgState{}
	}
	c := r.w.wgs[p]
	if c == nil {
		c = &wgState{}
		r.w.wgs[p] = c
	}
	return c
}

// ---------- channels ----------

type sendItem struct {
	v     value
	taken bool
	th    *thread
	vc    vclock
}

type channel struct {
	buf         []value
	bufvc       []vclock
	capacity    int
	closed      bool
	sendq       []*sendItem
	closevc     vclock
	recvWaiters int
	id          int
}

func newChannel(r *Run, capacity int) *channel {
	r.w.chanN++
	return &channel{capacity: capacity, id: r.w.chanN}
}

func (c *channel) recvReady() bool {
	return len(c.buf) > 0 || c.closed || c.pendingSend() != nil
}

func (c *channel) pendingSend() *sendItem {
	for _, s := range c.sendq {
		if !s.taken {
			return s
		}
	}
	return nil
}

func (c *channel) sendReady() bool {
	if c.closed {
		return true // will panic
	}
	if c.capacity > 0 {
		return len(c.buf) < c.capacity
	}
	return c.recvWaiters > 0
}

func chanSend(fr *frame, c *channel, v value) {
	th := fr.th
	if c == nil {
		th.point("send on nil chan")
		th.block("send on nil channel", func() bool { return false })
	}
	th.point("chan send")
	if c.closed {
		panic(rtPanic("send on closed channel"))
	}
	if c.capacity > 0 {
		th.block("chan send", func() bool { return c.closed || len(c.buf) < c.capacity })
		if c.closed {
			panic(rtPanic("send on closed channel"))
		}
		c.buf = append(c.buf, copyVal(v))
		c.bufvc = append(c.bufvc, th.vc.release(th))
		return
	}
	it := &sendItem{v: copyVal(v), th: th, vc: th.vc.release(th)}
	c.sendq = append(c.sendq, it)
	th.block("chan send", func() bool { return it.taken || c.closed })
	if !it.taken {
		panic(rtPanic("send on closed channel"))
	}
	// remove from queue
	for i, s := range c.sendq {
		if s == it {
			c.sendq = append(c.sendq[:i:i], c.sendq[i+1:]...)
			break
		}
	}
}

func (c *channel) take(th *thread) (value, bool) {
	if len(c.buf) > 0 {
		v := c.buf[0]
		c.buf = c.buf[1:]
		if len(c.bufvc) > 0 {
			th.vc.acquire(c.bufvc[0])
			c.bufvc = c.bufvc[1:]
		}
		return v, true
	}
	if s := c.pendingSend(); s != nil {
		s.taken = true
		th.vc.acquire(s.vc)
		return s.v, true
	}
	if c.closed {
		th.vc.acquire(c.closevc)
		return nil, false
	}
	panic("take on non-ready channel")
}

func chanRecv(fr *frame, c *channel, commaOk bool, elemT types.Type) value {
	th := fr.th
	if c == nil {
		th.point("recv on nil chan")
		th.block("receive on nil channel", func() bool { return false })
	}
	th.point("chan recv")
	c.recvWaiters++
	th.block("chan receive", c.recvReady)
	c.recvWaiters--
	v, ok := c.take(th)
	if !ok {
		v = zero(elemT)
	}
	if commaOk {
		return tuple{v, Bool(ok)}
	}
	return v
}

func chanClose(fr *frame, c *channel) {
	th := fr.th
	if c == nil {
		panic(rtPanic("close of nil channel"))
	}
	th.point("chan close")
	if c.closed {
		panic(rtPanic("close of closed channel"))
	}
	c.closed = true
	c.closevc = th.vc.release(th)
}

func selectOp(fr *frame, instr *ssa.Select) value {
	th := fr.th
	r := th.run
	type scase struct {
		ch   *channel
		send bool
		v    value
	}
	cases := make([]scase, len(instr.States))
	for i, st := range instr.States {
		c, _ := fr.get(st.Chan).(*channel)
		cases[i] = scase{ch: c, send: st.Dir == types.SendOnly}
		if st.Send != nil {
			cases[i].v = fr.get(st.Send)
		}
	}
	ready := func() []int {
		var rs []int
		for i, c := range cases {
			if c.ch == nil {
				continue
			}
			if c.send {
				if c.ch.sendReady() {
					rs = append(rs, i)
				}
			} else if c.ch.recvReady() {
				rs = append(rs, i)
			}
		}
		return rs
	}
	th.point("select")
	for _, c := range cases {
		if c.ch != nil && !c.send {
			c.ch.recvWaiters++
		}
	}
	if instr.Blocking {
		th.block("select", func() bool { return len(ready()) > 0 })
	}
	for _, c := range cases {
		if c.ch != nil && !c.send {
			c.ch.recvWaiters--
		}
	}
	rs := ready()
	chosen := -1
	if len(rs) > 0 {
		chosen = rs[r.choose(len(rs), "select")]
	}
	if !instr.Blocking && chosen < 0 && !r.cfg.BgLowPrio || !instr.Blocking && chosen < 0 && !th.spawned {
		// polling: the same thread takes the default branch of the same select again although no
		// other thread has run in between - it is busy-waiting for somebody else's progress.
		// Fairness: it has to give way (a free switch) before it may poll again.
		if th.spinEpoch != r.schedEpoch || th.spinAt == nil {
			th.spinAt, th.spinEpoch = map[ssa.Instruction]int{}, r.schedEpoch
		}
		th.spinAt[instr]++
		// a legitimate sequential loop may poll the same select a few times; a busy-wait repeats it
		// without bound. 16 repetitions with nobody else running are taken as busy-waiting.
		if th.spinAt[instr] >= 16 {
			th.mustYield = true
			th.reschedule(false)
			th.mustYield = false
		}
	}
	res := tuple{BV(64, uint64(int64(chosen))), falseT}
	var recvVals []value
	for i, st := range instr.States {
		if st.Dir == types.RecvOnly {
			var v value
			elemT := st.Chan.Type().Underlying().(*types.Chan).Elem()
			if i == chosen {
				x, ok := cases[i].ch.take(th)
				if ok {
					v = x
					res[1] = trueT
				} else {
					v = zero(elemT)
				}
			} else {
				v = zero(elemT)
			}
			recvVals = append(recvVals, v)
		}
	}
	if chosen >= 0 && cases[chosen].send {
		c := cases[chosen].ch
		if c.closed {
			panic(rtPanic("send on closed channel"))
		}
		if c.capacity > 0 {
			c.buf = append(c.buf, copyVal(cases[chosen].v))
			c.bufvc = append(c.bufvc, th.vc.release(th))
		} else {
			// rendezvous with a waiting receiver: hand over through the queue, already taken
			it := &sendItem{v: copyVal(cases[chosen].v), th: th, vc: th.vc.release(th)}
			c.sendq = append(c.sendq, it)
			th.block("select send handoff", func() bool { return it.taken || c.closed })
			for i, s := range c.sendq {
				if s == it {
					c.sendq = append(c.sendq[:i:i], c.sendq[i+1:]...)
					break
				}
			}
		}
	}
	return append(res, recvVals...)
}

// addEvent registers an environment event.
func (r *Run) addEvent(name string, fire func(th *thread)) *envEvent {
	e := &envEvent{name: name, fire: fire}
	if r.cfg.Params["timersNeverFire"] == 1 {
		// harness assumption: no timer / timeout / ticker elapses during the scenario
		e.stopped = true
	}
	r.events = append(r.events, e)
	return e
}
