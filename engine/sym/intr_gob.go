package sym

import (
	"fmt"
	"go/types"
)

// Contract model of encoding/gob for plain data structs (written from the package
// documentation; validated natively by the translator-validation runs of every check using it):
//   - values are flattened through pointers; a nil pointer transmits nothing;
//   - a field holding the zero value of its type (0, false, "", empty/nil slice) is NOT
//     transmitted, also when it is reached through a non-nil pointer; a struct reached through a
//     non-nil pointer is transmitted even if all its fields are zero;
//   - decoding sets exactly the transmitted fields of the receiver (allocating pointers as
//     needed) and leaves every other field of the receiver untouched;
//   - unexported fields are ignored.
// The encoded form is an opaque 8-byte token; its length is not the real encoding's length.
// Syntactically identical content gets the same token (gob is deterministic); content that is
// only equal under the path condition gets distinct tokens (harnesses that depend on byte
// equality of two encodings offer the identical value by an explicit choice).

type gobAbsent struct{}

type gobBlob struct {
	t types.Type
	v value
}

func (r *Run) gobFlatten(fr *frame, t types.Type, v value) value {
	switch u := t.Underlying().(type) {
	case *types.Basic:
		switch x := v.(type) {
		case *Term:
			var zeroC *Term
			switch x.Kind {
			case KBool:
				zeroC = r.st.Not(x)
			case KBV:
				zeroC = r.st.Eq(x, BV(x.W, 0))
			default:
				// floats: gob omits +0 only (bit pattern zero)
				if x.IsConst() {
					if x.K == 0 {
						return gobAbsent{}
					}
					return x
				}
				bits := fbits(fr, x).(*Term)
				zeroC = r.st.Eq(bits, BV(bits.W, 0))
			}
			if r.decideKind(zeroC, "gob-zero") {
				return gobAbsent{}
			}
			return x
		case string, symstr:
			if strLen(x) == 0 {
				return gobAbsent{}
			}
			return x
		}
		panic(unsupported(fmt.Sprintf("gob model: basic value %T", v)))
	case *types.Pointer:
		p := v.(*value)
		if p == nil {
			return gobAbsent{}
		}
		if _, isStruct := u.Elem().Underlying().(*types.Struct); isStruct {
			return r.gobFlattenStruct(fr, u.Elem(), (*p).(structure))
		}
		return r.gobFlatten(fr, u.Elem(), *p)
	case *types.Struct:
		return r.gobFlattenStruct(fr, t, v.(structure))
	case *types.Slice:
		s := v.([]value)
		if len(s) == 0 {
			return gobAbsent{}
		}
		if b, ok := u.Elem().Underlying().(*types.Basic); ok && b.Kind() == types.Uint8 {
			cp := make([]value, len(s))
			copy(cp, s)
			return cp
		}
		panic(unsupported("gob model: slice of " + u.Elem().String()))
	}
	panic(unsupported("gob model: type " + t.String()))
}

func (r *Run) gobFlattenStruct(fr *frame, t types.Type, s structure) value {
	st := t.Underlying().(*types.Struct)
	out := make(structure, st.NumFields())
	for i := 0; i < st.NumFields(); i++ {
		f := st.Field(i)
		if !f.Exported() {
			out[i] = gobAbsent{}
			continue
		}
		out[i] = r.gobFlatten(fr, f.Type(), s[i])
	}
	return out
}

// gobMerge stores the transmitted value flat into the receiver cell dst of type t.
func (r *Run) gobMerge(t types.Type, dst *value, flat value) {
	if _, absent := flat.(gobAbsent); absent {
		return
	}
	switch u := t.Underlying().(type) {
	case *types.Pointer:
		p := (*dst).(*value)
		if p == nil {
			p = new(value)
			*p = zero(u.Elem())
			*dst = p
		}
		r.gobMerge(u.Elem(), p, flat)
	case *types.Struct:
		cur := (*dst).(structure)
		fs := flat.(structure)
		for i := range fs {
			r.gobMerge(u.Field(i).Type(), &cur[i], fs[i])
		}
	case *types.Slice:
		s := flat.([]value)
		cp := make([]value, len(s))
		copy(cp, s)
		*dst = cp
	default:
		*dst = flat
	}
}

// gobSame: syntactic identity of two flattened values.
func gobSame(a, b value) bool {
	switch x := a.(type) {
	case gobAbsent:
		_, ok := b.(gobAbsent)
		return ok
	case *Term:
		y, ok := b.(*Term)
		if !ok {
			return false
		}
		if x == y {
			return true
		}
		return x.IsConst() && y.IsConst() && x.Kind == y.Kind && x.W == y.W && x.K == y.K
	case string:
		y, ok := b.(string)
		return ok && x == y
	case structure:
		y, ok := b.(structure)
		if !ok || len(x) != len(y) {
			return false
		}
		for i := range x {
			if !gobSame(x[i], y[i]) {
				return false
			}
		}
		return true
	case []value:
		y, ok := b.([]value)
		if !ok || len(x) != len(y) {
			return false
		}
		for i := range x {
			if !gobSame(x[i], y[i]) {
				return false
			}
		}
		return true
	}
	return false
}

func registerGobModel(e *Engine) {
	in := e.intr
	in["encoding/gob.NewEncoder"] = func(fr *frame, args []value) value {
		return &native{kind: "gobenc", obj: args[0].(iface)}
	}
	in["encoding/gob.NewDecoder"] = func(fr *frame, args []value) value {
		return &native{kind: "gobdec", obj: args[0].(iface)}
	}
	in["(*encoding/gob.Encoder).Encode"] = func(fr *frame, args []value) value {
		r := fr.run()
		w := args[0].(*native).obj.(iface)
		e := args[1].(iface)
		if e.t == nil {
			return mkError(fr, "gob: cannot encode nil value")
		}
		t, v := e.t, e.v
		if p, ok := t.Underlying().(*types.Pointer); ok {
			pv := v.(*value)
			if pv == nil {
				return mkError(fr, "gob: cannot encode nil pointer")
			}
			t, v = p.Elem(), *pv
		}
		flat := r.gobFlatten(fr, t, v)
		// gob is deterministic: the same content encodes to the same bytes. The model keeps that
		// for content that is syntactically identical (same constants, same symbolic terms);
		// values that are merely equal under the path condition still get distinct tokens.
		id := -1
		for i, b := range r.gobTab {
			if types.Identical(b.t, t) && gobSame(b.v, flat) {
				id = i
				break
			}
		}
		if id < 0 {
			r.gobTab = append(r.gobTab, gobBlob{t: t, v: flat})
			id = len(r.gobTab) - 1
		}
		tok := []value{BV(8, 'G'), BV(8, 'O'), BV(8, 'B'), BV(8, 1), BV(8, uint64(id>>24)&0xff), BV(8, uint64(id>>16)&0xff), BV(8, uint64(id>>8)&0xff), BV(8, uint64(id)&0xff)}
		res := callMethod(fr, w, "Write", tok)
		if tp, ok := res.(tuple); ok {
			if err, ok := tp[1].(iface); ok && err.t != nil {
				return err
			}
		}
		return iface{}
	}
	in["(*encoding/gob.Decoder).Decode"] = func(fr *frame, args []value) value {
		r := fr.run()
		src := args[0].(*native).obj.(iface)
		e := args[1].(iface)
		buf := make([]value, 8)
		for i := range buf {
			buf[i] = BV(8, 0)
		}
		got := 0
		for got < 8 {
			res := callMethod(fr, src, "Read", buf[got:]).(tuple)
			n := int(r.concreteInt(res[0].(*Term), "gob read"))
			got += n
			if err, ok := res[1].(iface); ok && err.t != nil || n == 0 {
				break
			}
		}
		bad := func() value { return mkError(fr, "gob: unexpected EOF / not a gob stream") }
		if got < 8 {
			return bad()
		}
		var b [8]uint64
		for i, x := range buf {
			t := x.(*Term)
			if !t.IsConst() {
				// symbolic bytes cannot be a token the model produced
				if !r.decideKind(r.st.Eq(t, BV(8, uint64("GOB\x01\x00\x00\x00\x00"[i]))), "gob-token") {
					return bad()
				}
				b[i] = uint64("GOB\x01\x00\x00\x00\x00"[i])
				continue
			}
			b[i] = t.K
		}
		if b[0] != 'G' || b[1] != 'O' || b[2] != 'B' || b[3] != 1 {
			return bad()
		}
		id := int(b[4]<<24 | b[5]<<16 | b[6]<<8 | b[7])
		if id >= len(r.gobTab) {
			return bad()
		}
		blob := r.gobTab[id]
		pt, ok := e.t.Underlying().(*types.Pointer)
		if !ok {
			return mkError(fr, "gob: attempt to decode into a non-pointer")
		}
		if !types.Identical(pt.Elem(), blob.t) && !types.Identical(pt.Elem().Underlying(), blob.t.Underlying()) {
			panic(unsupported("gob model: decode into a different type than encoded"))
		}
		dst := e.v.(*value)
		r.gobMerge(blob.t, dst, blob.v)
		return iface{}
	}
}
