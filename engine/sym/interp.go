package sym

import (
	"fmt"
	"go/token"
	"go/types"
	"slices"
	"strings"

	"golang.org/x/tools/go/ssa"
)

// ---------- panics used for control ----------

// targetPanic: the interpreted program panicked (explicit panic() or a Go run-time error).
type targetPanic struct {
	v   value
	msg string // for run-time errors raised by the interpreter
	rt  bool
}

func (p targetPanic) String() string {
	if p.rt {
		return "runtime error: " + p.msg
	}
	return toString(p.v)
}

// abortPath ends the current path (not a target-level panic; never recoverable by the target).
type abortPath struct {
	kind string // infeasible | truncated | unsupported | assumed-false | killed | done
	msg  string
}

func unsupported(msg string) abortPath { return abortPath{"unsupported", msg} }

type deferred struct {
	fn    value
	args  []value
	instr *ssa.Defer
	tail  *deferred
}

type frame struct {
	th        *thread
	caller    *frame
	fn        *ssa.Function
	block     *ssa.BasicBlock
	prevBlock *ssa.BasicBlock
	env       map[ssa.Value]value
	locals    []value
	defers    *deferred
	result    value
	panicking bool
	panic     any
	phitemps  []value
	loopCount map[*ssa.BasicBlock]int
}

func (fr *frame) run() *Run { return fr.th.run }

func (fr *frame) get(key ssa.Value) value {
	switch key := key.(type) {
	case nil:
		return nil
	case *ssa.Function:
		return key
	case *ssa.Builtin:
		return key
	case *ssa.Const:
		return constValue(key)
	case *ssa.Global:
		return fr.run().global(key)
	}
	if r, ok := fr.env[key]; ok {
		return r
	}
	panic(fmt.Sprintf("get: no value for %T: %v (in %s)", key, key.Name(), fr.fn))
}

func constValue(c *ssa.Const) value {
	if c.Value == nil {
		return zero(c.Type())
	}
	if t, ok := c.Type().Underlying().(*types.Basic); ok {
		if t.Info()&types.IsString != 0 {
			if c.Value.Kind().String() == "String" {
				return constantStringVal(c)
			}
			return string(rune(c.Int64()))
		}
		k, w, signed, ok := basicInfo(t)
		if ok {
			switch k {
			case KBool:
				return Bool(constantBoolVal(c))
			case KBV:
				if signed {
					return BV(w, uint64(c.Int64()))
				}
				return BV(w, c.Uint64())
			case KF32:
				return F32(float32(c.Float64()))
			case KF64:
				return F64(c.Float64())
			}
		}
	}
	panic(unsupported(fmt.Sprintf("constValue: %s", c)))
}

// ---------- frames ----------

func (fr *frame) runDefer(d *deferred) {
	var ok bool
	defer func() {
		if !ok {
			p := recover()
			if ap, isAbort := p.(abortPath); isAbort {
				panic(ap)
			}
			fr.panicking = true
			fr.panic = p
		}
	}()
	call(fr.th, fr, d.instr.Pos(), d.fn, d.args)
	ok = true
}

func (fr *frame) runDefers() {
	for d := fr.defers; d != nil; d = d.tail {
		fr.runDefer(d)
	}
	fr.defers = nil
	if fr.panicking {
		panic(fr.panic)
	}
}

func call(th *thread, caller *frame, pos token.Pos, fn value, args []value) value {
	switch fn := fn.(type) {
	case *ssa.Function:
		if fn == nil {
			panic(targetPanic{rt: true, msg: "invalid memory address or nil pointer dereference (call of nil func)"})
		}
		return callSSA(th, caller, pos, fn, args, nil)
	case *closure:
		return callSSA(th, caller, pos, fn.Fn, args, fn.Env)
	case *ssa.Builtin:
		return callBuiltin(caller, fn, args)
	case *nativeFunc:
		return fn.f(caller, args)
	}
	panic(fmt.Sprintf("cannot call %T", fn))
}

// fallThrough is returned by an intrinsic that declines (the real body is interpreted instead).
type fallThrough struct{}

// nativeFunc is an engine-implemented function value (e.g. bound intrinsic closures).
type nativeFunc struct {
	name string
	f    func(caller *frame, args []value) value
}

const maxCallDepth = 400

func callSSA(th *thread, caller *frame, pos token.Pos, fn *ssa.Function, args []value, env []value) value {
	r := th.run
	fr := &frame{th: th, caller: caller, fn: fn}
	{
		if len(r.stubs) > 0 {
			if sf, ok := r.stubs[r.eng.funcName(fn)]; ok {
				r.noteFunc(fn, true)
				return call(th, caller, pos, sf, args)
			}
		}
		if in := r.eng.intrinsic(fn); in != nil {
			res := in(fr, args)
			if _, ft := res.(fallThrough); !ft {
				r.noteFunc(fn, true)
				return res
			}
		}
	}
	if fn.Blocks == nil {
		// try building (dependency packages are built lazily)
		if fn.Pkg != nil {
			r.eng.buildPkg(fn.Pkg)
		}
		if fn.Blocks == nil {
			panic(unsupported("no code for function: " + fn.String()))
		}
	}
	if fn.TypeParams().Len() > 0 && len(fn.TypeArgs()) == 0 {
		panic(unsupported("uninstantiated generic function " + fn.String()))
	}
	if fn.Pkg != nil {
		r.ensureInit(fn.Pkg)
	}
	r.noteFunc(fn, false)
	if len(r.cfg.QuietPkgs) > 0 && fn.Pkg != nil {
		pp := fn.Pkg.Pkg.Path()
		for _, q := range r.cfg.QuietPkgs {
			if strings.HasPrefix(pp, q) {
				th.noPreempt++
				defer func() { th.noPreempt-- }()
				break
			}
		}
	}
	th.depth++
	if th.depth > maxCallDepth {
		panic(abortPath{"truncated", "call depth exceeded in " + fn.String()})
	}
	defer func() { th.depth-- }()
	fr.env = make(map[ssa.Value]value, len(fn.Params)+8)
	fr.block = fn.Blocks[0]
	fr.locals = make([]value, len(fn.Locals))
	for i, l := range fn.Locals {
		fr.locals[i] = zero(deref(l.Type()))
		fr.env[l] = &fr.locals[i]
	}
	for i, p := range fn.Params {
		fr.env[p] = args[i]
	}
	for i, fv := range fn.FreeVars {
		fr.env[fv] = env[i]
	}
	for fr.block != nil {
		runFrame(fr)
	}
	return fr.result
}

func runFrame(fr *frame) {
	defer func() {
		if fr.block == nil {
			return // normal return
		}
		p := recover()
		if ap, isAbort := p.(abortPath); isAbort {
			panic(ap) // engine-level abort: never visible to the target
		}
		if _, ok := p.(targetPanic); !ok {
			// internal engine bug: propagate with context
			panic(fmt.Sprintf("%v\n  in %s", p, fr.fn))
		}
		fr.panicking = true
		fr.panic = p
		fr.runDefers()
		fr.block = fr.fn.Recover
		if fr.block == nil {
			// recovered panic in a function without named results: return zero value
			fr.result = zeroResult(fr.fn)
		}
	}()
	for {
		nonPhis := executePhis(fr)
		for _, instr := range nonPhis {
			if visitInstr(fr, instr) == kReturn {
				return
			}
		}
	}
}

func zeroResult(fn *ssa.Function) value {
	res := fn.Signature.Results()
	switch res.Len() {
	case 0:
		return nil
	case 1:
		return zero(res.At(0).Type())
	}
	t := make(tuple, res.Len())
	for i := range t {
		t[i] = zero(res.At(i).Type())
	}
	return t
}

func executePhis(fr *frame) []ssa.Instruction {
	firstNonPhi := -1
	for i, instr := range fr.block.Instrs {
		if _, ok := instr.(*ssa.Phi); !ok {
			firstNonPhi = i
			break
		}
	}
	nonPhis := fr.block.Instrs[firstNonPhi:]
	if firstNonPhi > 0 {
		phis := fr.block.Instrs[:firstNonPhi]
		predIndex := slices.Index(fr.block.Preds, fr.prevBlock)
		fr.phitemps = fr.phitemps[:0]
		for _, phi := range phis {
			fr.phitemps = append(fr.phitemps, fr.get(phi.(*ssa.Phi).Edges[predIndex]))
		}
		for i, phi := range phis {
			fr.env[phi.(*ssa.Phi)] = fr.phitemps[i]
		}
	}
	return nonPhis
}

func doRecover(caller *frame) value {
	if caller != nil && !caller.panicking && caller.caller != nil && caller.caller.panicking {
		caller.caller.panicking = false
		p := caller.caller.panic
		caller.caller.panic = nil
		switch p := p.(type) {
		case targetPanic:
			if p.rt {
				return caller.run().eng.runtimeError(p.msg)
			}
			return p.v
		default:
			panic(fmt.Sprintf("unexpected panic type %T in recover()", p))
		}
	}
	return iface{}
}

type continuation int

const (
	kNext continuation = iota
	kReturn
	kJump
)

func rtPanic(msg string) targetPanic { return targetPanic{rt: true, msg: msg} }

// jumpTo handles loop-bound accounting on back edges.
func (fr *frame) jumpTo(b *ssa.BasicBlock) {
	if b.Index <= fr.block.Index { // back edge (approximation by block order)
		if fr.loopCount == nil {
			fr.loopCount = map[*ssa.BasicBlock]int{}
		}
		fr.loopCount[b]++
		if fr.loopCount[b] > fr.run().cfg.LoopBound {
			panic(abortPath{"truncated", fmt.Sprintf("loop bound %d exceeded in %s block %d", fr.run().cfg.LoopBound, fr.fn, b.Index)})
		}
	}
	fr.prevBlock, fr.block = fr.block, b
}

func visitInstr(fr *frame, instr ssa.Instruction) continuation {
	r := fr.th.run
	r.steps++
	if r.steps > r.cfg.MaxSteps {
		panic(abortPath{"truncated", fmt.Sprintf("instruction budget %d exceeded", r.cfg.MaxSteps)})
	}
	switch instr := instr.(type) {
	case *ssa.DebugRef:

	case *ssa.UnOp:
		fr.env[instr] = unop(fr, instr, fr.get(instr.X))

	case *ssa.BinOp:
		fr.env[instr] = binop(fr, instr.Op, instr.X.Type(), fr.get(instr.X), fr.get(instr.Y))

	case *ssa.Call:
		fn, args := prepareCall(fr, &instr.Call)
		fr.env[instr] = call(fr.th, fr, instr.Pos(), fn, args)

	case *ssa.ChangeInterface:
		fr.env[instr] = fr.get(instr.X)

	case *ssa.ChangeType:
		fr.env[instr] = fr.get(instr.X)

	case *ssa.Convert:
		fr.env[instr] = conv(fr, instr.Type(), instr.X.Type(), fr.get(instr.X))

	case *ssa.SliceToArrayPointer:
		x := fr.get(instr.X).([]value)
		n := int(deref(instr.Type()).Underlying().(*types.Array).Len())
		if x == nil {
			if n == 0 {
				fr.env[instr] = (*value)(nil)
				break
			}
		}
		if len(x) < n {
			panic(rtPanic("cannot convert slice to array pointer: slice too short"))
		}
		panic(unsupported("SliceToArrayPointer"))

	case *ssa.MakeInterface:
		fr.env[instr] = iface{t: instr.X.Type(), v: fr.get(instr.X)}

	case *ssa.Extract:
		fr.env[instr] = fr.get(instr.Tuple).(tuple)[instr.Index]

	case *ssa.Slice:
		fr.env[instr] = sliceOp(fr, instr, fr.get(instr.X), fr.get(instr.Low), fr.get(instr.High), fr.get(instr.Max))

	case *ssa.Return:
		switch len(instr.Results) {
		case 0:
		case 1:
			fr.result = fr.get(instr.Results[0])
		default:
			res := make(tuple, 0, len(instr.Results))
			for _, r := range instr.Results {
				res = append(res, fr.get(r))
			}
			fr.result = res
		}
		fr.block = nil
		return kReturn

	case *ssa.RunDefers:
		fr.runDefers()

	case *ssa.Panic:
		panic(targetPanic{v: fr.get(instr.X)})

	case *ssa.Send:
		chanSend(fr, fr.get(instr.Chan).(*channel), fr.get(instr.X))

	case *ssa.Store:
		addr := fr.get(instr.Addr).(*value)
		if addr == nil {
			panic(rtPanic("invalid memory address or nil pointer dereference"))
		}
		fr.th.raceWrite(addr, instr)
		*addr = copyVal(fr.get(instr.Val))

	case *ssa.If:
		succ := 1
		if fr.run().decide(fr.get(instr.Cond).(*Term)) {
			succ = 0
		}
		fr.jumpTo(fr.block.Succs[succ])
		return kJump

	case *ssa.Jump:
		fr.jumpTo(fr.block.Succs[0])
		return kJump

	case *ssa.Defer:
		fn, args := prepareCall(fr, &instr.Call)
		defers := &fr.defers
		if instr.DeferStack != nil {
			if into := fr.get(instr.DeferStack); into != nil {
				defers = into.(**deferred)
			}
		}
		*defers = &deferred{fn: fn, args: args, instr: instr, tail: *defers}

	case *ssa.Go:
		fn, args := prepareCall(fr, &instr.Call)
		fr.th.spawn(fn, args, instr)

	case *ssa.MakeChan:
		fr.env[instr] = newChannel(fr.run(), int(fr.run().concreteInt(fr.get(instr.Size).(*Term), "chan size")))

	case *ssa.Alloc:
		var addr *value
		if instr.Heap {
			addr = new(value)
			fr.env[instr] = addr
		} else {
			addr = fr.env[instr].(*value)
		}
		*addr = zero(deref(instr.Type()))

	case *ssa.MakeSlice:
		fr.env[instr] = makeSlice(fr, instr)

	case *ssa.MakeMap:
		fr.env[instr] = newMap(instr.Type().Underlying().(*types.Map).Key())

	case *ssa.Range:
		fr.env[instr] = rangeIter(fr, fr.get(instr.X), instr)

	case *ssa.Next:
		fr.env[instr] = fr.get(instr.Iter).(iter).next(fr)

	case *ssa.FieldAddr:
		p := fr.get(instr.X).(*value)
		if p == nil {
			panic(rtPanic("invalid memory address or nil pointer dereference"))
		}
		fr.env[instr] = &(*p).(structure)[instr.Field]

	case *ssa.Field:
		fr.env[instr] = fr.get(instr.X).(structure)[instr.Field]

	case *ssa.IndexAddr:
		x := fr.get(instr.X)
		idx := fr.get(instr.Index).(*Term)
		switch x := x.(type) {
		case []value:
			i := indexCheck(fr, idx, len(x), instr.Index.Type(), true)
			fr.env[instr] = &x[i]
		case *value:
			if x == nil {
				panic(rtPanic("invalid memory address or nil pointer dereference"))
			}
			a := (*x).(array)
			i := indexCheck(fr, idx, len(a), instr.Index.Type(), true)
			fr.env[instr] = &a[i]
		default:
			panic(fmt.Sprintf("unexpected x type in IndexAddr: %T", x))
		}

	case *ssa.Index:
		x := fr.get(instr.X)
		idx := fr.get(instr.Index).(*Term)
		switch x := x.(type) {
		case array:
			fr.env[instr] = indexRead(fr, idx, len(x), instr.Index.Type(), func(i int) value { return x[i] })
		case string, symstr:
			fr.env[instr] = indexRead(fr, idx, strLen(x), instr.Index.Type(), func(i int) value { return strByte(x, i) })
		default:
			panic(fmt.Sprintf("unexpected x type in Index: %T", x))
		}

	case *ssa.Lookup:
		fr.env[instr] = lookup(fr, instr, fr.get(instr.X), fr.get(instr.Index))

	case *ssa.MapUpdate:
		m := fr.get(instr.Map).(*hmap)
		if m == nil {
			panic(rtPanic("assignment to entry in nil map"))
		}
		fr.th.raceMapWrite(m, instr)
		m.insert(fr, fr.get(instr.Key), copyVal(fr.get(instr.Value)))

	case *ssa.TypeAssert:
		fr.env[instr] = typeAssert(fr, instr, fr.get(instr.X).(iface))

	case *ssa.MakeClosure:
		bindings := make([]value, 0, len(instr.Bindings))
		for _, b := range instr.Bindings {
			bindings = append(bindings, fr.get(b))
		}
		fr.env[instr] = &closure{instr.Fn.(*ssa.Function), bindings}

	case *ssa.Select:
		fr.env[instr] = selectOp(fr, instr)

	default:
		panic(unsupported(fmt.Sprintf("instruction %T", instr)))
	}
	return kNext
}

// indexCheck returns a concrete in-range index; the out-of-range side raises a Go run-time panic.
// A symbolic in-range index forks over the feasible concrete values.
func indexCheck(fr *frame, idx *Term, n int, it types.Type, fork bool) int {
	r := fr.run()
	if idx.IsConst() {
		i := idx.I64()
		if _, _, signed, _ := basicInfo(it); !signed {
			if idx.K >= uint64(n) {
				panic(rtPanic(fmt.Sprintf("index out of range [%d] with length %d", idx.K, n)))
			}
			return int(idx.K)
		}
		if i < 0 || i >= int64(n) {
			panic(rtPanic(fmt.Sprintf("index out of range [%d] with length %d", i, n)))
		}
		return int(i)
	}
	inRange := r.st.BvCmp(OBvUlt, r.toW(idx, it, 64), BV(64, uint64(n)))
	if _, _, signed, _ := basicInfo(it); signed {
		// signed negative values become huge unsigned after sign extension: same check
	}
	if !r.decide(inRange) {
		panic(rtPanic(fmt.Sprintf("index out of range [symbolic] with length %d", n)))
	}
	return int(r.concretize(r.toW(idx, it, 64), uint64(n), "index"))
}

// indexRead reads element idx (possibly symbolic) as an ite chain (no fork on in-range values).
func indexRead(fr *frame, idx *Term, n int, it types.Type, get func(int) value) value {
	r := fr.run()
	if idx.IsConst() {
		return get(indexCheck(fr, idx, n, it, false))
	}
	idx64 := r.toW(idx, it, 64)
	if !r.decide(r.st.BvCmp(OBvUlt, idx64, BV(64, uint64(n)))) {
		panic(rtPanic(fmt.Sprintf("index out of range [symbolic] with length %d", n)))
	}
	// ite chain for scalar elements, otherwise fork
	first := get(0)
	if _, ok := first.(*Term); ok {
		res := get(n - 1).(*Term)
		for i := n - 2; i >= 0; i-- {
			res = r.st.Ite(r.st.Eq(idx64, BV(64, uint64(i))), get(i).(*Term), res)
		}
		return res
	}
	return get(int(r.concretize(idx64, uint64(n), "index")))
}

func prepareCall(fr *frame, call *ssa.CallCommon) (fn value, args []value) {
	v := fr.get(call.Value)
	if call.Method == nil {
		fn = v
	} else {
		recv := v.(iface)
		if recv.t == nil {
			panic(rtPanic("invalid memory address or nil pointer dereference (method call on nil interface)"))
		}
		f := fr.run().eng.lookupMethod(recv.t, call.Method)
		if f == nil {
			panic(fmt.Sprintf("method set for dynamic type %v does not contain %s", recv.t, call.Method))
		}
		fn = f
		args = append(args, recv.v)
	}
	for _, arg := range call.Args {
		args = append(args, fr.get(arg))
	}
	return
}

func typeAssert(fr *frame, instr *ssa.TypeAssert, itf iface) value {
	var v value
	err := ""
	if itf.t == nil {
		err = fmt.Sprintf("interface conversion: interface is nil, not %s", instr.AssertedType)
	} else if idst, ok := instr.AssertedType.Underlying().(*types.Interface); ok {
		v = itf
		if meth, _ := types.MissingMethod(itf.t, idst, true); meth != nil {
			err = fmt.Sprintf("interface conversion: %v is not %v: missing method %s", itf.t, idst, meth.Name())
		}
	} else if types.Identical(itf.t, instr.AssertedType) {
		v = itf.v
	} else {
		err = fmt.Sprintf("interface conversion: interface is %s, not %s", itf.t, instr.AssertedType)
	}
	if err != "" {
		if !instr.CommaOk {
			panic(rtPanic(err))
		}
		return tuple{zero(instr.AssertedType), falseT}
	}
	if instr.CommaOk {
		return tuple{v, trueT}
	}
	return v
}

func makeSlice(fr *frame, instr *ssa.MakeSlice) value {
	r := fr.run()
	lenT := r.toW(fr.get(instr.Len).(*Term), instr.Len.Type(), 64)
	capT := r.toW(fr.get(instr.Cap).(*Term), instr.Cap.Type(), 64)
	if !lenT.IsConst() || !capT.IsConst() {
		big := lenT
		if lenT.IsConst() {
			big = capT
		}
		r.allocObligation(fr, big, instr)
	}
	n := r.concreteSize(lenT, "make len")
	c := n
	if capT != lenT {
		if capT.IsConst() {
			c = r.concreteSize(capT, "make cap")
		} else {
			// a symbolic capacity only influences reallocation, not behaviour: the negative side
			// panics as in Go, otherwise the slice is materialised with cap == len
			if !r.decide(r.st.BvCmp(OBvSle, lenT, capT)) {
				panic(rtPanic("makeslice: cap out of range"))
			}
		}
	}
	if n < 0 || c < n {
		panic(rtPanic("makeslice: len out of range"))
	}
	if c > r.cfg.MaxAlloc {
		r.allocTooLarge(fr, c, instr)
	}
	s := make([]value, c)
	tElt := instr.Type().Underlying().(*types.Slice).Elem()
	z := zero(tElt)
	if _, scalar := z.(*Term); scalar {
		for i := range s {
			s[i] = z
		}
	} else {
		for i := range s {
			s[i] = zero(tElt)
		}
	}
	return s[:n]
}

func sliceOp(fr *frame, instr *ssa.Slice, x, lo, hi, max value) value {
	r := fr.run()
	var n, c int
	switch x := x.(type) {
	case string, symstr:
		n = strLen(x)
		c = n
	case []value:
		n, c = len(x), cap(x)
	case *value:
		if x == nil {
			panic(rtPanic("invalid memory address or nil pointer dereference"))
		}
		n = len((*x).(array))
		c = n
	default:
		panic(fmt.Sprintf("slice: unexpected X type: %T", x))
	}
	bound := func(v value, st ssa.Value, dflt int, limit int) int {
		if v == nil {
			return dflt
		}
		t := r.toW(v.(*Term), st.Type(), 64)
		if t.IsConst() {
			i := t.I64()
			if i < 0 || i > int64(limit) {
				panic(rtPanic(fmt.Sprintf("slice bounds out of range [%d] with capacity %d", i, limit)))
			}
			return int(i)
		}
		if !r.decide(r.st.BvCmp(OBvUle, t, BV(64, uint64(limit)))) {
			panic(rtPanic(fmt.Sprintf("slice bounds out of range [symbolic] with capacity %d", limit)))
		}
		return int(r.concretize(t, uint64(limit)+1, "slice bound"))
	}
	_, isStr := x.(string)
	if _, ok := x.(symstr); ok {
		isStr = true
	}
	limit := c
	if isStr {
		limit = n
	}
	h := bound(hi, instr.High, n, limit)
	m := c
	if max != nil {
		m = bound(max, instr.Max, c, c)
		if h > m {
			panic(rtPanic(fmt.Sprintf("slice bounds out of range [:%d:%d]", h, m)))
		}
	}
	l := bound(lo, instr.Low, 0, limit)
	if l > h {
		panic(rtPanic(fmt.Sprintf("slice bounds out of range [%d:%d]", l, h)))
	}
	switch x := x.(type) {
	case string, symstr:
		return strSlice(x, l, h)
	case []value:
		if max != nil {
			return x[l:h:m]
		}
		return x[l:h]
	case *value:
		a := (*x).(array)
		if max != nil {
			return []value(a)[l:h:m]
		}
		return []value(a)[l:h]
	}
	panic("unreachable")
}

func posStr(fr *frame, pos token.Pos) string {
	if fr == nil || pos == token.NoPos {
		return ""
	}
	p := fr.fn.Prog.Fset.Position(pos)
	f := p.Filename
	if i := strings.LastIndex(f, "/"); i >= 0 {
		f = f[i+1:]
	}
	return fmt.Sprintf("%s:%d", f, p.Line)
}

// stackTrace renders the interpreted call stack of a frame.
func stackTrace(fr *frame) []string {
	var out []string
	for f := fr; f != nil; f = f.caller {
		out = append(out, f.fn.String())
		if len(out) > 12 {
			break
		}
	}
	return out
}
