package sym

import (
	"fmt"
	"go/types"
)

func registerBinaryIntrinsics(e *Engine) {
	in := e.intr
	for _, end := range []string{"littleEndian", "bigEndian"} {
		le := end == "littleEndian"
		for _, w := range []int{16, 32, 64} {
			nb := w / 8
			w := w
			name := fmt.Sprintf("(encoding/binary.%s).Uint%d", end, w)
			in[name] = func(fr *frame, args []value) value {
				b := args[1].([]value)
				if len(b) < nb {
					panic(rtPanic(fmt.Sprintf("index out of range [%d] with length %d", nb-1, len(b))))
				}
				st := fr.run().st
				var res *Term
				for i := 0; i < nb; i++ {
					// build from most significant byte
					var idx int
					if le {
						idx = nb - 1 - i
					} else {
						idx = i
					}
					bt := b[idx].(*Term)
					if res == nil {
						res = bt
					} else {
						res = st.Concat(res, bt)
					}
				}
				return res
			}
			put := func(fr *frame, b []value, v *Term) {
				if len(b) < nb {
					panic(rtPanic(fmt.Sprintf("index out of range [%d] with length %d", nb-1, len(b))))
				}
				st := fr.run().st
				for i := 0; i < nb; i++ {
					// byte i (little endian position)
					bt := st.Extract(v, uint8(8*i+7), uint8(8*i))
					if le {
						b[i] = bt
					} else {
						b[nb-1-i] = bt
					}
				}
			}
			in[fmt.Sprintf("(encoding/binary.%s).PutUint%d", end, w)] = func(fr *frame, args []value) value {
				put(fr, args[1].([]value), args[2].(*Term))
				return nil
			}
			in[fmt.Sprintf("(encoding/binary.%s).AppendUint%d", end, w)] = func(fr *frame, args []value) value {
				b := args[1].([]value)
				ext := make([]value, nb)
				put(fr, ext, args[2].(*Term))
				return append(b, ext...)
			}
		}
	}
}

// ---------- grpc status / codes, timestamppb, uuid, context helpers ----------

type grpcStatus struct {
	code uint64
	msg  value
}

func registerMiscIntrinsics(e *Engine) {
	in := e.intr
	statusErrT := func(fr *frame) types.Type {
		return types.NewPointer(fr.run().eng.namedType("google.golang.org/grpc/internal/status", "Error"))
	}
	mkStatus := func(fr *frame, code *Term, msg value) value {
		if !code.IsConst() {
			panic(unsupported("symbolic grpc code"))
		}
		if code.K == 0 {
			return iface{}
		}
		return iface{t: statusErrT(fr), v: &native{kind: "grpcStatus", obj: &grpcStatus{code: code.K, msg: msg}}}
	}
	in["google.golang.org/grpc/status.Error"] = func(fr *frame, args []value) value {
		return mkStatus(fr, args[0].(*Term), args[1])
	}
	in["google.golang.org/grpc/status.Errorf"] = func(fr *frame, args []value) value {
		return mkStatus(fr, args[0].(*Term), symSprintf(fr, args[1], args[2]))
	}
	in["(*google.golang.org/grpc/internal/status.Error).Error"] = func(fr *frame, args []value) value {
		s := args[0].(*native).obj.(*grpcStatus)
		if m, ok := s.msg.(string); ok {
			return fmt.Sprintf("rpc error: code = %d desc = %s", s.code, m)
		}
		return "rpc error: <symbolic>"
	}
	in["google.golang.org/grpc/status.Code"] = func(fr *frame, args []value) value {
		err := args[0].(iface)
		if err.t == nil {
			return BV(32, 0)
		}
		if n, ok := err.v.(*native); ok && n.kind == "grpcStatus" {
			return BV(32, n.obj.(*grpcStatus).code)
		}
		return BV(32, 2) // Unknown
	}
	// status.FromError returns (*Status, bool): model *Status as native too
	in["google.golang.org/grpc/status.FromError"] = func(fr *frame, args []value) value {
		err := args[0].(iface)
		if err.t == nil {
			return tuple{(*value)(nil), trueT}
		}
		if n, ok := err.v.(*native); ok && n.kind == "grpcStatus" {
			return tuple{n, trueT}
		}
		return tuple{&native{kind: "grpcStatus", obj: &grpcStatus{code: 2, msg: errString(fr, err)}}, falseT}
	}
	in["(*google.golang.org/grpc/internal/status.Status).Code"] = func(fr *frame, args []value) value {
		if n, ok := args[0].(*native); ok {
			return BV(32, n.obj.(*grpcStatus).code)
		}
		return BV(32, 0)
	}
	in["(*google.golang.org/grpc/internal/status.Status).Message"] = func(fr *frame, args []value) value {
		if n, ok := args[0].(*native); ok {
			return n.obj.(*grpcStatus).msg
		}
		return ""
	}
	in["(*google.golang.org/grpc/internal/status.Status).Err"] = func(fr *frame, args []value) value {
		if n, ok := args[0].(*native); ok {
			if n.obj.(*grpcStatus).code == 0 {
				return iface{}
			}
			return iface{t: statusErrT(fr), v: n}
		}
		return iface{}
	}
	in["(google.golang.org/grpc/codes.Code).String"] = func(fr *frame, args []value) value {
		return fmt.Sprintf("Code(%d)", args[0].(*Term).K)
	}

	// timestamppb
	in["google.golang.org/protobuf/types/known/timestamppb.New"] = func(fr *frame, args []value) value {
		r := fr.run()
		t := args[0].(timeVal)
		tsT := r.eng.namedType("google.golang.org/protobuf/types/known/timestamppb", "Timestamp")
		cell := new(value)
		s := zero(tsT).(structure)
		sec, nsec := r.timeSplit(t)
		s[fieldIndex(tsT, "Seconds")] = sec
		s[fieldIndex(tsT, "Nanos")] = r.st.Extract(nsec, 31, 0)
		*cell = s
		return cell
	}
	in["google.golang.org/protobuf/types/known/timestamppb.Now"] = func(fr *frame, args []value) value {
		return in["google.golang.org/protobuf/types/known/timestamppb.New"](fr, []value{fr.run().now(fr.th)})
	}
	in["(*google.golang.org/protobuf/types/known/timestamppb.Timestamp).AsTime"] = func(fr *frame, args []value) value {
		r := fr.run()
		p := args[0].(*value)
		tsT := r.eng.namedType("google.golang.org/protobuf/types/known/timestamppb", "Timestamp")
		var sec, nanos *Term = BV(64, 0), BV(32, 0)
		if p != nil {
			s := (*p).(structure)
			sec = s[fieldIndex(tsT, "Seconds")].(*Term)
			nanos = s[fieldIndex(tsT, "Nanos")].(*Term)
		}
		return r.timeUnix(sec, r.st.SExt(nanos, 64))
	}
	in["(*google.golang.org/protobuf/types/known/timestamppb.Timestamp).IsValid"] = func(fr *frame, args []value) value {
		return Bool(args[0].(*value) != nil)
	}

	in["github.com/google/uuid.New"] = func(fr *frame, args []value) value {
		r := fr.run()
		r.uuidN++
		a := make(array, 16)
		for i := range a {
			a[i] = BV(8, 0)
		}
		a[15] = BV(8, uint64(r.uuidN))
		a[14] = BV(8, uint64(r.uuidN>>8))
		a[6] = BV(8, 0x40)
		a[8] = BV(8, 0x80)
		return a
	}
	in["(github.com/google/uuid.UUID).String"] = func(fr *frame, args []value) value {
		a := args[0].(array)
		b := make([]byte, 16)
		for i := range a {
			b[i] = byte(a[i].(*Term).K)
		}
		return fmt.Sprintf("%x-%x-%x-%x-%x", b[0:4], b[4:6], b[6:8], b[8:10], b[10:16])
	}
	in["os.Getenv"] = func(fr *frame, args []value) value { return "" }
	in["os.Getpid"] = func(fr *frame, args []value) value { return BV(64, 4242) }
	in["reflect.DeepEqual"] = func(fr *frame, args []value) value {
		a, b := args[0].(iface), args[1].(iface)
		if a.t == nil || b.t == nil {
			return Bool(a.t == nil && b.t == nil)
		}
		if !types.Identical(a.t, b.t) {
			return falseT
		}
		return deepEq(fr, a.v, b.v)
	}
}

func deepEq(fr *frame, a, b value) *Term {
	st := fr.run().st
	switch x := a.(type) {
	case []value:
		y := b.([]value)
		if (x == nil) != (y == nil) || len(x) != len(y) {
			return falseT
		}
		res := trueT
		for i := range x {
			res = st.And(res, deepEq(fr, x[i], y[i]))
		}
		return res
	case structure:
		y := b.(structure)
		res := trueT
		for i := range x {
			res = st.And(res, deepEq(fr, x[i], y[i]))
		}
		return res
	case array:
		y := b.(array)
		res := trueT
		for i := range x {
			res = st.And(res, deepEq(fr, x[i], y[i]))
		}
		return res
	case *value:
		y := b.(*value)
		if x == y {
			return trueT
		}
		if x == nil || y == nil {
			return falseT
		}
		return deepEq(fr, *x, *y)
	case iface:
		y := b.(iface)
		if x.t == nil || y.t == nil {
			return Bool(x.t == nil && y.t == nil)
		}
		if !types.Identical(x.t, y.t) {
			return falseT
		}
		return deepEq(fr, x.v, y.v)
	case *hmap:
		panic(unsupported("reflect.DeepEqual on maps"))
	}
	return valEq(fr, nil, a, b)
}
