package sym

import (
	"fmt"
	"go/types"
	"math"
	"strings"

	"golang.org/x/tools/go/ssa"
)

func fieldIndex(t types.Type, name string) int {
	st, ok := t.Underlying().(*types.Struct)
	if !ok {
		if p, ok := t.Underlying().(*types.Pointer); ok {
			return fieldIndex(p.Elem(), name)
		}
		panic(fmt.Sprintf("fieldIndex: %v is not a struct", t))
	}
	for i := 0; i < st.NumFields(); i++ {
		if st.Field(i).Name() == name {
			return i
		}
	}
	panic(fmt.Sprintf("fieldIndex: no field %s in %v", name, t))
}

// namedType returns the named type pkg.name from the loaded program.
func (e *Engine) namedType(pkg, name string) types.Type {
	p := e.pkgByPath[pkg]
	if p == nil {
		panic(unsupported("package not loaded: " + pkg))
	}
	o := p.Pkg.Scope().Lookup(name)
	if o == nil {
		panic(unsupported("type not found: " + pkg + "." + name))
	}
	return o.Type()
}

// callMethod invokes method name on the dynamic value of an interface.
func callMethod(fr *frame, recv iface, name string, args ...value) value {
	if recv.t == nil {
		panic(rtPanic("invalid memory address or nil pointer dereference (method call on nil interface)"))
	}
	f := fr.run().eng.methodByName(recv.t, name)
	if f == nil {
		panic(fmt.Sprintf("callMethod: %v has no method %s", recv.t, name))
	}
	return call(fr.th, fr, 0, f, append([]value{recv.v}, args...))
}

func hasMethod(e *Engine, t types.Type, name string) bool {
	if t == nil {
		return false
	}
	return e.methodByName(t, name) != nil
}

// mkError builds an *errors.errorString.
func mkError(fr *frame, msg value) value {
	e := fr.run().eng
	t := e.namedType("errors", "errorString")
	cell := new(value)
	*cell = structure{msg}
	return iface{t: types.NewPointer(t), v: cell}
}

// errString evaluates err.Error() (concrete string expected; symbolic parts become placeholders).
func errString(fr *frame, err iface) string {
	if err.t == nil {
		return "<nil>"
	}
	v := callMethod(fr, err, "Error")
	if s, ok := v.(string); ok {
		return s
	}
	return "<symbolic-string>"
}

// toNative converts an interpreter value into a Go value suitable for fmt.
func toNative(fr *frame, v value, t types.Type) any {
	switch x := v.(type) {
	case nil:
		return nil
	case *Term:
		if !x.IsConst() {
			return "<sym>"
		}
		if t != nil {
			if b, ok := t.Underlying().(*types.Basic); ok {
				switch b.Kind() {
				case types.Bool:
					return x.K != 0
				case types.Int:
					return int(x.I64())
				case types.Int8:
					return int8(x.I64())
				case types.Int16:
					return int16(x.I64())
				case types.Int32:
					return int32(x.I64())
				case types.Int64:
					return x.I64()
				case types.Uint:
					return uint(x.K)
				case types.Uint8:
					return uint8(x.K)
				case types.Uint16:
					return uint16(x.K)
				case types.Uint32:
					return uint32(x.K)
				case types.Uint64:
					return x.K
				case types.Uintptr:
					return uintptr(x.K)
				case types.Float32:
					return float32(x.F64Val())
				case types.Float64:
					return x.F64Val()
				}
			}
		}
		switch x.Kind {
		case KBool:
			return x.K != 0
		case KBV:
			return x.I64()
		default:
			return x.F64Val()
		}
	case string:
		return x
	case symstr:
		return "<symstr>"
	case iface:
		if x.t == nil {
			return nil
		}
		e := fr.run().eng
		if hasMethod(e, x.t, "Error") {
			return fmt.Errorf("%s", errString(fr, x))
		}
		if hasMethod(e, x.t, "String") {
			func() {
				defer func() {
					if p := recover(); p != nil {
						if ap, ok := p.(abortPath); ok && ap.kind != "unsupported" {
							panic(p)
						}
						v = "<" + x.t.String() + ">"
					}
				}()
				if s, ok := callMethod(fr, x, "String").(string); ok {
					v = s
				} else {
					v = "<symstr>"
				}
			}()
			return v
		}
		return toNative(fr, x.v, x.t)
	case []value:
		if t != nil {
			if sl, ok := t.Underlying().(*types.Slice); ok {
				if b, ok := sl.Elem().Underlying().(*types.Basic); ok && b.Kind() == types.Uint8 {
					out := make([]byte, len(x))
					for i, e := range x {
						et := e.(*Term)
						if !et.IsConst() {
							return "<symbytes>"
						}
						out[i] = byte(et.K)
					}
					return out
				}
				out := make([]any, len(x))
				for i, e := range x {
					out[i] = toNative(fr, e, sl.Elem())
				}
				return out
			}
		}
		return fmt.Sprintf("<slice len=%d>", len(x))
	case timeVal:
		return "<time>"
	case *value:
		if x == nil {
			return nil
		}
		return fmt.Sprintf("<ptr %p>", x)
	}
	if t != nil {
		return "<" + t.String() + ">"
	}
	return fmt.Sprintf("<%T>", v)
}

func nativeArgs(fr *frame, varargs value) []any {
	sl, _ := varargs.([]value)
	out := make([]any, len(sl))
	for i, a := range sl {
		out[i] = toNative(fr, a, nil)
	}
	return out
}

func zeroOfResults(fn *ssa.Function) value { return zeroResult(fn) }

func registerIntrinsics(e *Engine) {
	registerHarnessAPI(e)
	in := e.intr
	nop := func(fr *frame, args []value) value { return zeroResult(fr.fn) }

	// ---- runtime / internal ----
	for _, n := range []string{"runtime.KeepAlive", "runtime.GC", "runtime.Gosched", "runtime.SetFinalizer", "runtime/debug.FreeOSMemory", "runtime/debug.SetGCPercent",
		"internal/race.Acquire", "internal/race.Release", "internal/race.ReleaseMerge", "internal/race.Read", "internal/race.Write", "internal/race.ReadRange", "internal/race.WriteRange", "internal/race.Disable", "internal/race.Enable",
		"os.Exit", "runtime.LockOSThread", "runtime.UnlockOSThread", "internal/godebug.(*Setting).IncNonDefault", "(*internal/godebug.Setting).IncNonDefault"} {
		in[n] = nop
	}
	in["(*internal/godebug.Setting).Value"] = func(fr *frame, args []value) value { return "" }
	in["internal/godebug.New"] = func(fr *frame, args []value) value { return (*value)(nil) }
	in["runtime.NumCPU"] = func(fr *frame, args []value) value { return BV(64, 4) }
	in["runtime.GOMAXPROCS"] = func(fr *frame, args []value) value { return BV(64, 4) }
	in["runtime/debug.Stack"] = func(fr *frame, args []value) value { return []value{} }
	in["runtime.Caller"] = func(fr *frame, args []value) value { return tuple{BV(64, 0), "?", BV(64, 0), falseT} }
	in["internal/bytealg.MakeNoZero"] = func(fr *frame, args []value) value {
		n := int(fr.run().concreteInt(args[0].(*Term), "MakeNoZero"))
		s := make([]value, n)
		for i := range s {
			s[i] = BV(8, 0)
		}
		return s
	}
	in["internal/bytealg.IndexByte"] = func(fr *frame, args []value) value {
		return indexByte(fr, sliceBytes(args[0]), args[1].(*Term))
	}
	in["internal/bytealg.IndexByteString"] = func(fr *frame, args []value) value {
		return indexByte(fr, strBytes(args[0]), args[1].(*Term))
	}
	in["internal/bytealg.CountString"] = func(fr *frame, args []value) value {
		return countByte(fr, strBytes(args[0]), args[1].(*Term))
	}
	in["internal/bytealg.Count"] = func(fr *frame, args []value) value {
		return countByte(fr, sliceBytes(args[0]), args[1].(*Term))
	}
	in["internal/bytealg.Equal"] = func(fr *frame, args []value) value {
		return bytesEq(fr.run().st, sliceBytes(args[0]), sliceBytes(args[1]))
	}
	in["bytes.Equal"] = in["internal/bytealg.Equal"]
	in["internal/bytealg.Compare"] = func(fr *frame, args []value) value {
		return bytesCompare(fr, sliceBytes(args[0]), sliceBytes(args[1]))
	}
	in["bytes.Compare"] = in["internal/bytealg.Compare"]
	in["strings.Compare"] = func(fr *frame, args []value) value {
		return bytesCompare(fr, strBytes(args[0]), strBytes(args[1]))
	}
	in["internal/bytealg.IndexString"] = func(fr *frame, args []value) value {
		return indexSub(fr, strBytes(args[0]), strBytes(args[1]))
	}
	in["internal/bytealg.Index"] = func(fr *frame, args []value) value {
		return indexSub(fr, sliceBytes(args[0]), sliceBytes(args[1]))
	}
	in["strings.Index"] = in["internal/bytealg.IndexString"]
	in["strings.Contains"] = func(fr *frame, args []value) value {
		i := indexSub(fr, strBytes(args[0]), strBytes(args[1])).(*Term)
		return fr.run().st.BvCmp(OBvSle, BV(64, 0), i)
	}
	in["strings.HasPrefix"] = func(fr *frame, args []value) value {
		s, p := strBytes(args[0]), strBytes(args[1])
		if len(p) > len(s) {
			return falseT
		}
		return bytesEq(fr.run().st, s[:len(p)], p)
	}
	in["strings.HasSuffix"] = func(fr *frame, args []value) value {
		s, p := strBytes(args[0]), strBytes(args[1])
		if len(p) > len(s) {
			return falseT
		}
		return bytesEq(fr.run().st, s[len(s)-len(p):], p)
	}
	in["(*strings.Builder).String"] = func(fr *frame, args []value) value {
		b := (*args[0].(*value)).(structure)
		buf := b[1].([]value)
		bs := make([]*Term, len(buf))
		for i, x := range buf {
			bs[i] = x.(*Term)
		}
		return mkStr(bs)
	}
	in["strings.Clone"] = func(fr *frame, args []value) value { return args[0] }
	in["internal/abi.NoEscape"] = func(fr *frame, args []value) value { return args[0] }
	in["(*strings.Builder).copyCheck"] = func(fr *frame, args []value) value { return nil }
	in["unique.Make[string]"] = nil
	delete(in, "unique.Make[string]")

	// ---- math ----
	in["math.Float64bits"] = func(fr *frame, args []value) value { return fbits(fr, args[0].(*Term)) }
	in["math.Float32bits"] = in["math.Float64bits"]
	// msgpack's unsafe string<->[]byte casts
	in["github.com/vmihailenco/msgpack/v5.stringToBytes"] = func(fr *frame, args []value) value {
		bs := strBytes(args[0])
		out := make([]value, len(bs))
		for i, b := range bs {
			out[i] = b
		}
		return out
	}
	in["github.com/vmihailenco/msgpack/v5.bytesToString"] = func(fr *frame, args []value) value {
		b := args[0].([]value)
		ts := make([]*Term, len(b))
		for i, x := range b {
			ts[i] = x.(*Term)
		}
		return mkStr(ts)
	}
	in["math.Float64frombits"] = func(fr *frame, args []value) value { return fr.run().st.FFromBits(args[0].(*Term)) }
	in["math.Float32frombits"] = in["math.Float64frombits"]
	math1 := func(f func(float64) float64) intrinsicFn {
		return func(fr *frame, args []value) value {
			t := args[0].(*Term)
			if !t.IsConst() {
				panic(unsupported("math function on symbolic float: " + fr.fn.String()))
			}
			return F64(f(t.F64Val()))
		}
	}
	in["math.Floor"] = math1(math.Floor)
	in["math.Ceil"] = math1(math.Ceil)
	in["math.Trunc"] = math1(math.Trunc)
	in["math.Sqrt"] = math1(math.Sqrt)
	in["math.Sin"] = math1(math.Sin)
	in["math.Cos"] = math1(math.Cos)
	in["math.Abs"] = func(fr *frame, args []value) value {
		t := args[0].(*Term)
		st := fr.run().st
		if t.IsConst() {
			return F64(math.Abs(t.F64Val()))
		}
		return st.Ite(st.FCmp(OFLt, t, F64(0)), st.FNeg(t), t)
	}
	in["math.Atan2"] = func(fr *frame, args []value) value {
		a, b := args[0].(*Term), args[1].(*Term)
		if !a.IsConst() || !b.IsConst() {
			panic(unsupported("math.Atan2 symbolic"))
		}
		return F64(math.Atan2(a.F64Val(), b.F64Val()))
	}
	in["math.IsNaN"] = func(fr *frame, args []value) value { return fr.run().st.FIsNaN(args[0].(*Term)) }
	in["math.IsInf"] = func(fr *frame, args []value) value {
		st := fr.run().st
		f := args[0].(*Term)
		sign := args[1].(*Term)
		if !sign.IsConst() {
			panic(unsupported("math.IsInf symbolic sign"))
		}
		pinf := st.FCmp(OFEq, f, F64(math.Inf(1)))
		ninf := st.FCmp(OFEq, f, F64(math.Inf(-1)))
		s := sign.I64()
		switch {
		case s > 0:
			return pinf
		case s < 0:
			return ninf
		}
		return st.Or(pinf, ninf)
	}

	// ---- errors / fmt ----
	in["errors.Is"] = func(fr *frame, args []value) value {
		return Bool(errorsIs(fr, args[0].(iface), args[1].(iface), 0))
	}
	in["errors.As"] = func(fr *frame, args []value) value {
		return Bool(errorsAs(fr, args[0].(iface), args[1].(iface)))
	}
	in["fmt.Sprintf"] = func(fr *frame, args []value) value {
		return symSprintf(fr, args[0], args[1])
	}
	in["fmt.Sprint"] = func(fr *frame, args []value) value { return fmt.Sprint(nativeArgs(fr, args[0])...) }
	in["fmt.Sprintln"] = func(fr *frame, args []value) value { return fmt.Sprintln(nativeArgs(fr, args[0])...) }
	for _, n := range []string{"fmt.Println", "fmt.Printf", "fmt.Print", "fmt.Fprintf", "fmt.Fprintln", "fmt.Fprint"} {
		in[n] = func(fr *frame, args []value) value { return tuple{BV(64, 0), iface{}} }
	}
	in["fmt.Errorf"] = func(fr *frame, args []value) value {
		format, ok := args[0].(string)
		if !ok {
			panic(unsupported("fmt.Errorf with symbolic format"))
		}
		varargs, _ := args[1].([]value)
		var wrapped []iface
		// find %w operands
		argi := 0
		for i := 0; i < len(format); i++ {
			if format[i] != '%' {
				continue
			}
			i++
			for i < len(format) && strings.ContainsRune("+-# 0123456789.", rune(format[i])) {
				i++
			}
			if i >= len(format) {
				break
			}
			if format[i] == '%' {
				continue
			}
			if format[i] == 'w' && argi < len(varargs) {
				if w, ok := varargs[argi].(iface); ok && w.t != nil {
					if inner, ok := w.v.(iface); ok { // error stored in any
						w = inner
					}
					wrapped = append(wrapped, w)
				}
			}
			argi++
		}
		msg := fmt.Sprintf(strings.ReplaceAll(format, "%w", "%v"), nativeArgs(fr, args[1])...)
		e := fr.run().eng
		switch len(wrapped) {
		case 0:
			t := e.namedType("fmt", "wrapError")
			_ = t
			return mkError(fr, msg)
		case 1:
			t := e.namedType("fmt", "wrapError")
			cell := new(value)
			*cell = structure{msg, wrapped[0]}
			return iface{t: types.NewPointer(t), v: cell}
		default:
			t := e.namedType("fmt", "wrapErrors")
			errs := make([]value, len(wrapped))
			for i, w := range wrapped {
				errs[i] = w
			}
			cell := new(value)
			*cell = structure{msg, errs}
			return iface{t: types.NewPointer(t), v: cell}
		}
	}

	// ---- sort ----
	in["sort.Slice"] = func(fr *frame, args []value) value { sortSlice(fr, args[0].(iface), args[1]); return nil }
	in["sort.SliceStable"] = in["sort.Slice"]

	// ---- log/slog and friends: handled by patternIntrinsic ----

	// ---- hashing / compression models ----
	in["hash/crc32.ChecksumIEEE"] = func(fr *frame, args []value) value {
		return crcModel(fr, sliceBytes(args[0]))
	}
	in["github.com/cespare/xxhash/v2.Sum64"] = func(fr *frame, args []value) value {
		return xxhModel(fr, sliceBytes(args[0]))
	}
	in["github.com/cespare/xxhash/v2.Sum64String"] = func(fr *frame, args []value) value {
		return xxhModel(fr, strBytes(args[0]))
	}
	// Snappy model: Encode(x) = x (identity form); Decode accepts exactly encoder output.
	in["github.com/golang/snappy.Encode"] = func(fr *frame, args []value) value {
		src := args[1].([]value)
		out := make([]value, len(src)+1)
		out[0] = BV(8, 0x53) // model tag byte 'S'
		copy(out[1:], src)
		return out
	}
	in["github.com/golang/snappy.Decode"] = func(fr *frame, args []value) value {
		src := args[1].([]value)
		r := fr.run()
		bad := func() value {
			return tuple{[]value(nil), mkError(fr, "snappy: corrupt input")}
		}
		if len(src) == 0 {
			return bad()
		}
		if !r.decide(r.st.Eq(src[0].(*Term), BV(8, 0x53))) {
			return bad()
		}
		// like the real decoder: reuse dst when it is long enough, else allocate
		var out []value
		if dst, _ := args[0].([]value); len(src)-1 <= len(dst) && len(dst) > 0 {
			out = dst[:len(src)-1]
		} else {
			out = make([]value, len(src)-1)
		}
		copy(out, src[1:])
		return tuple{out, iface{}}
	}
	in["github.com/golang/snappy.DecodedLen"] = func(fr *frame, args []value) value {
		src := args[0].([]value)
		if len(src) == 0 {
			return tuple{BV(64, 0), mkError(fr, "snappy: corrupt input")}
		}
		return tuple{BV(64, uint64(len(src)-1)), iface{}}
	}

	// hash/maphash: the seed is an opaque constant, the hash an uninterpreted function of the bytes
	// (a different function per process in reality; collisions are outside every claim)
	in["hash/maphash.MakeSeed"] = func(fr *frame, args []value) value {
		return structure{BV(64, 0x9e3779b97f4a7c15)}
	}
	in["hash/maphash.Bytes"] = func(fr *frame, args []value) value {
		return ufBytes(fr, "maphash", 64, sliceBytes(args[1]))
	}
	in["hash/maphash.String"] = func(fr *frame, args []value) value {
		return ufBytes(fr, "maphash", 64, strBytes(args[1]))
	}
	in["github.com/google/uuid.NewString"] = func(fr *frame, args []value) value {
		r := fr.run()
		r.uuidN++
		return fmt.Sprintf("00000000-0000-4000-8000-%012d", r.uuidN)
	}

	registerBinaryIntrinsics(e)
	registerSyncIntrinsics(e)
	registerTimeIntrinsics(e)
	registerOSIntrinsics(e)
	registerMiscIntrinsics(e)
}

// patternIntrinsic handles families by prefix.
func patternIntrinsic(e *Engine, fn *ssa.Function, name string) intrinsicFn {
	pkg := ""
	if fn.Pkg != nil {
		pkg = fn.Pkg.Pkg.Path()
	} else if fn.Object() != nil && fn.Object().Pkg() != nil {
		pkg = fn.Object().Pkg().Path()
	}
	switch pkg {
	case "log/slog", "log":
		return func(fr *frame, args []value) value { return zeroResult(fr.fn) }
	}
	if strings.HasPrefix(pkg, RepoModule+"/app/server/telemetry") {
		return func(fr *frame, args []value) value { return zeroResult(fr.fn) }
	}
	if f := patternSync(e, fn, name); f != nil {
		return f
	}
	if fn.Synthetic == "package initializer" {
		p := fn.Pkg
		return func(fr *frame, args []value) value {
			fr.run().ensureInit(p)
			return nil
		}
	}
	return nil
}

func sliceBytes(v value) []*Term {
	switch s := v.(type) {
	case []value:
		out := make([]*Term, len(s))
		for i, x := range s {
			out[i] = x.(*Term)
		}
		return out
	case string, symstr:
		return strBytes(s)
	}
	panic(fmt.Sprintf("sliceBytes of %T", v))
}

func bytesEq(st *Store, a, b []*Term) *Term {
	if len(a) != len(b) {
		return falseT
	}
	res := trueT
	for i := range a {
		res = st.And(res, st.Eq(a[i], b[i]))
		if res.IsConst() && res.K == 0 {
			return falseT
		}
	}
	return res
}

func bytesCompare(fr *frame, a, b []*Term) value {
	st := fr.run().st
	lt := strLess(st, symstr(a), symstr(b), false)
	gt := strLess(st, symstr(b), symstr(a), false)
	if len(a) == 0 && len(b) == 0 {
		return BV(64, 0)
	}
	return st.Ite(lt, BV(64, ^uint64(0)), st.Ite(gt, BV(64, 1), BV(64, 0)))
}

func indexByte(fr *frame, s []*Term, c *Term) value {
	st := fr.run().st
	res := BV(64, ^uint64(0))
	for i := len(s) - 1; i >= 0; i-- {
		res = st.Ite(st.Eq(s[i], c), BV(64, uint64(i)), res)
	}
	return res
}

func countByte(fr *frame, s []*Term, c *Term) value {
	st := fr.run().st
	res := BV(64, 0)
	for i := range s {
		res = st.BvBin(OBvAdd, res, st.Ite(st.Eq(s[i], c), BV(64, 1), BV(64, 0)))
	}
	return res
}

func indexSub(fr *frame, s, sub []*Term) value {
	st := fr.run().st
	if len(sub) == 0 {
		return BV(64, 0)
	}
	res := BV(64, ^uint64(0))
	for i := len(s) - len(sub); i >= 0; i-- {
		res = st.Ite(bytesEq(st, s[i:i+len(sub)], sub), BV(64, uint64(i)), res)
	}
	return res
}

// fbits models math.Float64bits/Float32bits with a fresh bit-vector b constrained by to_fp(b) == x
// (NaN payload is unconstrained but canonicalised to the quiet NaN Go produces for arithmetic).
func fbits(fr *frame, x *Term) value {
	r := fr.run()
	w := uint8(64)
	if x.Kind == KF32 {
		w = 32
	}
	if x.IsConst() {
		return BV(w, x.K)
	}
	if x.Op == OFFromBits {
		return x.A
	}
	b := r.st.Fresh("fbits", KBV, w)
	back := r.st.FFromBits(b)
	// bitwise-equal unless NaN: fp.eq distinguishes +0/-0? (fp.eq(+0,-0) is true) so use SMT "=" on floats
	eq := r.st.mk(OEq, KBool, 0, back, x, nil, 0, "")
	r.addPC(eq)
	return b
}

func ufBytes(fr *frame, name string, w uint8, bs []*Term) value {
	r := fr.run()
	allc := true
	for _, b := range bs {
		if !b.IsConst() {
			allc = false
		}
	}
	if allc {
		buf := make([]byte, len(bs))
		for i, b := range bs {
			buf[i] = byte(b.K)
		}
		return BV(w, concreteHash(name, buf))
	}
	if len(bs) == 0 {
		return BV(w, concreteHash(name, nil))
	}
	return r.st.UF(fmt.Sprintf("%s_%d", name, len(bs)), KBV, w, bs...)
}

// errorsIs follows errors.Is: ==, Is method, Unwrap chain.
func errorsIs(fr *frame, err, target iface, depth int) bool {
	if err.t == nil || target.t == nil {
		return err.t == nil && target.t == nil
	}
	if depth > 50 {
		panic(unsupported("errors.Is depth"))
	}
	r := fr.run()
	e := r.eng
	for {
		if types.Comparable(target.t) && types.Identical(err.t, target.t) {
			if r.decide(valEq(fr, err.t, err.v, target.v)) {
				return true
			}
		}
		if f := e.methodByName(err.t, "Is"); f != nil && f.Signature.Params().Len() == 1 {
			if res, ok := call(fr.th, fr, 0, f, []value{err.v, target}).(*Term); ok && r.decide(res) {
				return true
			}
		}
		f := e.methodByName(err.t, "Unwrap")
		if f == nil {
			return false
		}
		res := call(fr.th, fr, 0, f, []value{err.v})
		switch u := res.(type) {
		case iface:
			if u.t == nil {
				return false
			}
			err = u
		case []value:
			for _, x := range u {
				if errorsIs(fr, x.(iface), target, depth+1) {
					return true
				}
			}
			return false
		default:
			return false
		}
	}
}

func errorsAs(fr *frame, err iface, target iface) bool {
	if target.t == nil {
		panic(targetPanic{v: "errors: target cannot be nil"})
	}
	pt, ok := target.t.Underlying().(*types.Pointer)
	if !ok {
		panic(targetPanic{v: "errors: target must be a non-nil pointer"})
	}
	elem := pt.Elem()
	cell := target.v.(*value)
	e := fr.run().eng
	for err.t != nil {
		if it, ok := elem.Underlying().(*types.Interface); ok {
			if types.Implements(err.t, it) {
				*cell = err
				return true
			}
		} else if types.Identical(err.t, elem) {
			*cell = err.v
			return true
		}
		if f := e.methodByName(err.t, "As"); f != nil {
			if res, ok := call(fr.th, fr, 0, f, []value{err.v, target}).(*Term); ok && fr.run().decide(res) {
				return true
			}
		}
		f := e.methodByName(err.t, "Unwrap")
		if f == nil {
			return false
		}
		res := call(fr.th, fr, 0, f, []value{err.v})
		switch u := res.(type) {
		case iface:
			err = u
		case []value:
			for _, x := range u {
				if errorsAs(fr, x.(iface), target) {
					return true
				}
			}
			return false
		default:
			return false
		}
	}
	return false
}

// sortSlice: in-place insertion sort using the real less closure and real element swaps.
func sortSlice(fr *frame, x iface, less value) {
	sl, ok := x.v.([]value)
	if !ok {
		panic(unsupported("sort.Slice on non-slice"))
	}
	r := fr.run()
	n := len(sl)
	lessFn := func(i, j int) bool {
		res := call(fr.th, fr, 0, less, []value{BV(64, uint64(i)), BV(64, uint64(j))})
		return r.decideKind(res.(*Term), "sort")
	}
	for i := 1; i < n; i++ {
		for j := i; j > 0 && lessFn(j, j-1); j-- {
			sl[j], sl[j-1] = sl[j-1], sl[j]
		}
	}
}

// symSprintf: native Sprintf for concrete operands; %x/%d of a symbolic integer are modelled.
func symSprintf(fr *frame, formatV value, varargs value) value {
	format, ok := formatV.(string)
	if !ok {
		return "<symbolic-format>"
	}
	sl, _ := varargs.([]value)
	anySym := false
	for _, a := range sl {
		if i, ok := a.(iface); ok {
			switch v := i.v.(type) {
			case *Term:
				if !v.IsConst() {
					anySym = true
				}
			case symstr:
				anySym = true
			}
		}
	}
	if !anySym {
		return fmt.Sprintf(format, nativeArgs(fr, varargs)...)
	}
	// piecewise formatting: split format into verbs
	r := fr.run()
	var out []*Term
	argi := 0
	for i := 0; i < len(format); i++ {
		c := format[i]
		if c != '%' {
			out = append(out, BV(8, uint64(c)))
			continue
		}
		j := i + 1
		for j < len(format) && strings.ContainsRune("+-# 0123456789.", rune(format[j])) {
			j++
		}
		if j >= len(format) {
			break
		}
		verb := format[j]
		spec := format[i : j+1]
		i = j
		if verb == '%' {
			out = append(out, BV(8, '%'))
			continue
		}
		if argi >= len(sl) {
			out = append(out, strBytes("%!"+string(verb)+"(MISSING)")...)
			continue
		}
		a := sl[argi].(iface)
		argi++
		switch v := a.v.(type) {
		case symstr:
			if spec == "%s" || spec == "%v" {
				out = append(out, v...)
				continue
			}
			panic(unsupported("Sprintf " + spec + " of symbolic string"))
		case *Term:
			if !v.IsConst() {
				if spec == "%x" && v.Kind == KBV {
					out = append(out, symHex(r, v)...)
					continue
				}
				panic(unsupported("Sprintf " + spec + " of symbolic number"))
			}
		}
		out = append(out, strBytes(fmt.Sprintf(spec, toNative(fr, a, nil)))...)
	}
	return mkStr(out)
}

// symHex renders a symbolic unsigned integer in lower-case hex without leading zeros:
// forks on the number of digits (1..w/4).
func symHex(r *Run, v *Term) []*Term {
	st := r.st
	nd := int(v.W / 4)
	// number of significant digits: fork
	digits := 1
	for d := nd; d >= 2; d-- {
		// is the top nibble at position d-1 (and above) nonzero? v >= 16^(d-1)
		if r.decideKind(st.BvCmp(OBvUle, BV(v.W, uint64(1)<<(4*uint(d-1))), v), "hexdigits") {
			digits = d
			break
		}
	}
	out := make([]*Term, digits)
	for i := 0; i < digits; i++ {
		sh := uint8(4 * (digits - 1 - i))
		nib := st.ZExt(st.Extract(v, sh+3, sh), 8)
		out[i] = st.Ite(st.BvCmp(OBvUlt, nib, BV(8, 10)), st.BvBin(OBvAdd, nib, BV(8, '0')), st.BvBin(OBvAdd, nib, BV(8, 'a'-10)))
	}
	return out
}
