package sym

import (
	"fmt"
	"go/types"
	"os"
	"path/filepath"
	"sort"
	"strings"
	"sync"
	"time"

	"golang.org/x/tools/go/packages"
	"golang.org/x/tools/go/ssa"
	"golang.org/x/tools/go/ssa/ssautil"
)

const RepoModule = "github.com/hydraide/hydraide"

type intrinsicFn func(fr *frame, args []value) value

type Engine struct {
	Prog      *ssa.Program
	Pkgs      []*packages.Package
	pkgByPath map[string]*ssa.Package
	intr      map[string]intrinsicFn
	intrCache sync.Map // *ssa.Function -> intrinsicFn or nil marker
	nameCache sync.Map
	built     sync.Map
	buildMu   sync.Mutex
	RepoDir   string
	LoadTime  time.Duration
	rtErrT    types.Type
	Verbose   bool
}

// Load type-checks the given package patterns of /repo (working tree) with the harness overlay.
// overlay maps virtual absolute file names to contents.
func Load(repoDir string, patterns []string, overlay map[string][]byte, tags string) (*Engine, error) {
	t0 := time.Now()
	env := append(os.Environ(), "GOFLAGS=", "GOPROXY=off", "GOTOOLCHAIN=local", "GOWORK=")
	// ensure go1.26.8 first on PATH
	for i, e := range env {
		if strings.HasPrefix(e, "PATH=") {
			env[i] = "PATH=/opt/veriftools/go1.26.8/bin:" + e[5:]
		}
	}
	cfg := &packages.Config{
		Mode:       packages.LoadAllSyntax,
		Dir:        repoDir,
		Env:        env,
		Overlay:    overlay,
		BuildFlags: []string{"-tags=" + tags},
		Tests:      false,
	}
	pkgs, err := packages.Load(cfg, patterns...)
	if err != nil {
		return nil, err
	}
	var errs []string
	packages.Visit(pkgs, nil, func(p *packages.Package) {
		for _, e := range p.Errors {
			errs = append(errs, e.Error())
		}
	})
	if len(errs) > 0 {
		if len(errs) > 20 {
			errs = errs[:20]
		}
		return nil, fmt.Errorf("package load errors:\n%s", strings.Join(errs, "\n"))
	}
	prog, _ := ssautil.AllPackages(pkgs, ssa.InstantiateGenerics)
	e := &Engine{Prog: prog, Pkgs: pkgs, RepoDir: repoDir, pkgByPath: map[string]*ssa.Package{}}
	for _, p := range prog.AllPackages() {
		e.pkgByPath[p.Pkg.Path()] = p
	}
	e.intr = map[string]intrinsicFn{}
	registerIntrinsics(e)
	registerGobModel(e)
	if rp := prog.ImportedPackage("runtime"); rp != nil {
		if t := rp.Type("errorString"); t != nil {
			e.rtErrT = t.Object().Type()
		}
	}
	e.LoadTime = time.Since(t0)
	return e, nil
}

func (e *Engine) buildPkg(p *ssa.Package) {
	if _, ok := e.built.Load(p); ok {
		return
	}
	p.Build()
	e.built.Store(p, true)
}

func (e *Engine) Pkg(path string) *ssa.Package { return e.pkgByPath[path] }

// Func finds pkgpath.Name.
func (e *Engine) Func(pkgPath, name string) *ssa.Function {
	p := e.pkgByPath[pkgPath]
	if p == nil {
		return nil
	}
	e.buildPkg(p)
	return p.Func(name)
}

func (e *Engine) lookupMethod(t types.Type, meth *types.Func) *ssa.Function {
	return e.Prog.LookupMethod(t, meth.Pkg(), meth.Name())
}

// methodByName finds method name on dynamic type t (nil if absent).
func (e *Engine) methodByName(t types.Type, name string) *ssa.Function {
	ms := e.Prog.MethodSets.MethodSet(t)
	for i := 0; i < ms.Len(); i++ {
		sel := ms.At(i)
		if sel.Obj().Name() == name {
			return e.Prog.MethodValue(sel)
		}
	}
	return nil
}

func (e *Engine) runtimeError(msg string) value {
	// runtime.errorString is a string type with Error() method
	if e.rtErrT != nil {
		return iface{t: e.rtErrT, v: "runtime error: " + msg}
	}
	return iface{t: types.Typ[types.String], v: "runtime error: " + msg}
}

func (e *Engine) perRunPkg(p *ssa.Package) bool {
	if p == nil {
		return true
	}
	path := p.Pkg.Path()
	if strings.HasPrefix(path, RepoModule) {
		return !strings.Contains(path, "hydraidepbgo")
	}
	return false
}

func (e *Engine) initPolicy(path string) string {
	if strings.HasPrefix(path, RepoModule) {
		if strings.Contains(path, "hydraidepbgo") || strings.Contains(path, "/proto") {
			return "skip"
		}
		return "strict"
	}
	switch path {
	case "os", "time", "sync", "sync/atomic", "reflect", "runtime", "syscall", "log/slog", "log",
		"unsafe", "internal/poll", "os/signal", "net", "net/http", "crypto/rand", "math/rand", "math/rand/v2",
		"internal/godebug", "internal/cpu", "runtime/debug", "os/exec", "os/user", "testing",
		"encoding/gob", "encoding/json", "internal/reflectlite", "internal/bytealg", "internal/abi",
		"internal/syscall/unix", "internal/testlog", "hash/crc32":
		return "skip"
	case "internal/oserror", "internal/stringslite", "internal/itoa", "internal/byteorder", "internal/bisect":
		return "tolerant"
	}
	for _, pre := range []string{"google.golang.org/", "golang.org/x/", "github.com/vmihailenco/", "github.com/klauspost/", "github.com/pierrec/",
		"github.com/golang/snappy", "github.com/google/uuid", "github.com/cespare/", "runtime/", "internal/", "crypto/", "net/", "github.com/prometheus", "go.opentelemetry.io", "github.com/charmbracelet", "github.com/spf13"} {
		if strings.HasPrefix(path, pre) {
			return "skip"
		}
	}
	return "tolerant"
}

func (e *Engine) funcName(fn *ssa.Function) string {
	if v, ok := e.nameCache.Load(fn); ok {
		return v.(string)
	}
	n := fn.String()
	e.nameCache.Store(fn, n)
	return n
}

func (e *Engine) intrinsic(fn *ssa.Function) intrinsicFn {
	if v, ok := e.intrCache.Load(fn); ok {
		f, _ := v.(intrinsicFn)
		return f
	}
	name := e.funcName(fn)
	f := e.intr[name]
	if f == nil {
		f = patternIntrinsic(e, fn, name)
	}
	if f == nil {
		e.intrCache.Store(fn, 0)
	} else {
		e.intrCache.Store(fn, f)
	}
	return f
}

// ---------- workers and exploration ----------

type Worker struct {
	id         int
	eng        *Engine
	sol        *Solver
	shared     map[*ssa.Global]*value
	sharedInit map[*ssa.Package]bool
	funcs      map[*ssa.Function]int
	initSkips  map[string]string
	wg         sync.WaitGroup
	mutexes    map[*value]*mutexState
	conds      map[*value]*condState
	wgs        map[*value]*wgState
	chanN      int
	syncMaps   map[*value]*hmap
	onces      map[*value]*onceState
	uninit     map[*ssa.Global]bool
	uninitRead map[string]bool
	fixedUp    map[*ssa.Global]bool
}

func (w *Worker) markFixed(g *ssa.Global) {
	if w.fixedUp == nil {
		w.fixedUp = map[*ssa.Global]bool{}
	}
	w.fixedUp[g] = true
}

func (w *Worker) noteUninit(g *ssa.Global) {
	if w.uninit == nil {
		w.uninit = map[*ssa.Global]bool{}
	}
	w.uninit[g] = true
}

func (w *Worker) noteInitSkip(pkg, why string) {
	if w.initSkips == nil {
		w.initSkips = map[string]string{}
	}
	if len(why) > 200 {
		why = why[:200]
	}
	w.initSkips[pkg] = why
}

type PathResult struct {
	Outcome      string // ok | done | infeasible | truncated | unsupported | assumed-false | internal
	Msg          string
	Trail        []TrailEnt
	Alts         [][]TrailEnt
	Viols        []Violation
	Covers       map[string]bool
	Asserts      map[string]int
	Steps        int
	Inconclusive int
	DecCount     map[string]int
	Sample       *PathSample
	SchedLen     int
}

type PathSample struct {
	HadViolation bool           `json:"had_violation,omitempty"`
	Extra        map[string]any `json:"extra,omitempty"`
	Harness      string         `json:"harness"`
	Decisions    int            `json:"decisions"`
	Trail        string         `json:"trail"`
	Inputs       []ReplayInput  `json:"model_inputs,omitempty"`
	Observed     []string       `json:"observed,omitempty"`
	Outcome      string         `json:"outcome"`
	PCSize       int            `json:"path_condition_conjuncts"`
}

// Harness describes one entry point.
type Harness struct {
	Pkg  string // import path of the package under test
	Func string // harness function name, signature func(*verifrt.H)
}

func (w *Worker) runPath(h Harness, fn *ssa.Function, cfg Config, prefix []TrailEnt, wantSample bool) (res PathResult) {
	r := &Run{eng: w.eng, w: w, cfg: cfg, st: NewStore(), sol: w.sol, prefix: prefix,
		covers: map[string]bool{}, asserts: map[string]int{}, decCount: map[string]int{},
		globals: map[*ssa.Global]*value{}, initDone: map[*ssa.Package]bool{},
		killCh: make(chan struct{}), doneCh: make(chan struct{}), harness: h.Func,
		stubs: map[string]value{}}
	w.mutexes, w.conds, w.wgs, w.syncMaps, w.onces = nil, nil, nil, nil, nil
	if cfg.Race {
		r.race = &raceState{cells: map[any]*shadow{}, reported: map[string]bool{}}
	}
	w.sol.BeginRun()
	hobj := &native{kind: "H", obj: r}
	main := r.newThread("main", fn, []value{hobj})
	main.start()
	main.wake <- struct{}{}
	<-r.doneCh
	w.wg.Wait()
	out := r.outcome
	// final model for samples / translator validation
	if wantSample && (out.kind == "ok" || out.kind == "done") {
		terms := r.inputTerms()
		rs, vals := Sat, []uint64(nil)
		if len(terms) > 0 || len(r.pc) > 0 {
			rs, vals = w.sol.Check(nil, terms)
		}
		if rs == Sat {
			m := map[*Term]uint64{}
			for i, t := range terms {
				m[t] = vals[i]
			}
			s := &PathSample{Harness: h.Func, Decisions: len(r.trail), Trail: trailString(r.trail), Inputs: r.modelInputs(vals, terms), Outcome: out.kind, PCSize: len(r.pc), HadViolation: len(r.viols) > 0}
			for _, o := range r.observes {
				s.Observed = append(s.Observed, o.key+"="+obsString(o.term, m))
			}
			if r.fs != nil && r.fs.crashPlan != nil {
				s.Extra = map[string]any{"crashPlan": r.fs.crashPlan}
			}
			res.Sample = s
		}
	}
	w.sol.EndRun()
	res.Outcome, res.Msg = out.kind, out.msg
	res.Trail, res.Alts, res.Viols = r.trail, r.alts, r.viols
	res.Covers, res.Asserts, res.Steps = r.covers, r.asserts, r.steps
	res.Inconclusive, res.DecCount = r.inconclusive, r.decCount
	res.SchedLen = len(r.schedLog)
	if os.Getenv("VERIF_SCHEDTRACE") != "" {
		fmt.Fprintf(os.Stderr, "PATH %s/%s [%s] sched=%v\n", out.kind, out.msg, trailString(r.trail), r.schedLog)
	}
	return
}

func trailString(t []TrailEnt) string {
	var sb strings.Builder
	for i, e := range t {
		if i > 0 {
			sb.WriteByte(' ')
		}
		if e.Kind == "conc" {
			fmt.Fprintf(&sb, "%s=%d:%d", e.Kind, e.V, e.C)
		} else {
			fmt.Fprintf(&sb, "%s:%d", e.Kind, e.C)
		}
		if sb.Len() > 600 {
			sb.WriteString(" …")
			break
		}
	}
	return sb.String()
}

// ExploreStats aggregates the exploration of one harness.
type ExploreStats struct {
	Harness                      string
	Paths                        int
	Outcomes                     map[string]int
	Decisions                    int
	DecByKind                    map[string]int
	Viols                        []Violation
	Covers                       map[string]bool
	Asserts                      map[string]int
	Truncated                    []string
	Unsupported                  []string
	Internal                     []string
	Inconclusive                 int
	Queries, Sat, Unsat, Unknown int
	SolverTime                   time.Duration
	Samples                      []PathSample
	Funcs                        map[string]int // name -> #instructions (interpreted) or -1 (intrinsic)
	InitSkips                    map[string]string
	Wall                         time.Duration
	PathLimitHit                 bool
	SolverErrs                   []string
	Steps                        int
	Params                       map[string]int
	UninitReads                  map[string]bool // globals of init-skipped packages whose non-constant initialiser did not run and that the code touched
}

type ExploreOpts struct {
	Workers         int
	MaxPaths        int
	SolverTimeoutMs int
	Samples         int
	Seed            int64
	Deadline        time.Time
	StopOnViolation bool
}

func (e *Engine) Explore(h Harness, cfg Config, opt ExploreOpts) (*ExploreStats, error) {
	fn := e.Func(h.Pkg, h.Func)
	if fn == nil {
		return nil, fmt.Errorf("harness %s.%s not found", h.Pkg, h.Func)
	}
	t0 := time.Now()
	st := &ExploreStats{Harness: h.Func, Outcomes: map[string]int{}, DecByKind: map[string]int{}, Covers: map[string]bool{}, Asserts: map[string]int{}, Funcs: map[string]int{}, InitSkips: map[string]string{}}
	var mu sync.Mutex
	cond := sync.NewCond(&mu)
	work := [][]TrailEnt{nil}
	active := 0
	stop := false
	pathSeq, sampleStride := 0, 1
	nw := opt.Workers
	if nw <= 0 {
		nw = 1
	}
	var wg sync.WaitGroup
	workers := make([]*Worker, nw)
	for i := 0; i < nw; i++ {
		kind := os.Getenv("VERIF_SOLVER")
		if kind == "" {
			kind = "z3-new"
		}
		sol, err := NewSolver(kind, opt.SolverTimeoutMs)
		if err != nil {
			return nil, err
		}
		workers[i] = &Worker{id: i, eng: e, sol: sol, shared: map[*ssa.Global]*value{}, sharedInit: map[*ssa.Package]bool{}, funcs: map[*ssa.Function]int{}}
	}
	for i := 0; i < nw; i++ {
		w := workers[i]
		wg.Add(1)
		go func() {
			defer wg.Done()
			defer w.sol.Close()
			for {
				mu.Lock()
				for len(work) == 0 && active > 0 && !stop {
					cond.Wait()
				}
				if stop || (len(work) == 0 && active == 0) {
					mu.Unlock()
					cond.Broadcast()
					return
				}
				prefix := work[len(work)-1]
				work = work[:len(work)-1]
				active++
				nViolSamples := 0
				for _, x := range st.Samples {
					if x.HadViolation {
						nViolSamples++
					}
				}
				// a model for the path's inputs is only computed for paths that may become samples:
				// every sampleStride-th started path (the stride doubles whenever the sample set is
				// full and is thinned), so that the samples are spread over the whole exploration
				// instead of being its first few paths
				pathSeq++
				wantSample := opt.Samples > 0 && pathSeq%sampleStride == 0 || (nViolSamples < 2 && len(st.Viols) > 0 && len(st.Viols) < 50)
				mu.Unlock()

				res := w.runPath(h, fn, cfg, prefix, wantSample)

				mu.Lock()
				active--
				st.Paths++
				st.Outcomes[res.Outcome]++
				st.Decisions += len(res.Trail)
				st.Steps += res.Steps
				for k, v := range res.DecCount {
					st.DecByKind[k] += v
				}
				st.Viols = append(st.Viols, res.Viols...)
				for k := range res.Covers {
					st.Covers[k] = true
				}
				for k, v := range res.Asserts {
					st.Asserts[k] += v
				}
				st.Inconclusive += res.Inconclusive
				switch res.Outcome {
				case "truncated":
					if len(st.Truncated) < 5 {
						st.Truncated = append(st.Truncated, res.Msg)
					}
				case "unsupported":
					if len(st.Unsupported) < 5 {
						st.Unsupported = append(st.Unsupported, res.Msg)
					}
				case "internal":
					if len(st.Internal) < 5 {
						st.Internal = append(st.Internal, res.Msg)
					}
				}
				if res.Sample != nil {
					nv := 0
					for _, x := range st.Samples {
						if x.HadViolation {
							nv++
						}
					}
					if res.Sample.HadViolation && nv < 2 || !res.Sample.HadViolation && opt.Samples > 0 {
						st.Samples = append(st.Samples, *res.Sample)
					}
					nv = 0
					for _, x := range st.Samples {
						if x.HadViolation {
							nv++
						}
					}
					if len(st.Samples)-nv > opt.Samples && opt.Samples > 0 && sampleStride < 1<<40 {
						// thin: keep every other passing sample, double the stride
						kept, k := st.Samples[:0], 0
						for _, x := range st.Samples {
							if x.HadViolation {
								kept = append(kept, x)
								continue
							}
							if k%2 == 0 {
								kept = append(kept, x)
							}
							k++
						}
						st.Samples = kept
						sampleStride *= 2
					}
				}
				work = append(work, res.Alts...)
				if opt.MaxPaths > 0 && st.Paths+active >= opt.MaxPaths && len(work) > 0 {
					st.PathLimitHit = true
					stop = true
				}
				if !opt.Deadline.IsZero() && time.Now().After(opt.Deadline) && (len(work) > 0 || active > 0) {
					st.PathLimitHit = true
					stop = true
				}
				if opt.StopOnViolation && len(res.Viols) > 0 {
					for _, v := range res.Viols {
						if v.Known == "" {
							stop = true
						}
					}
				}
				mu.Unlock()
				cond.Broadcast()
			}
		}()
	}
	wg.Wait()
	for _, w := range workers {
		st.Queries += w.sol.Queries
		st.Sat += w.sol.NSat
		st.Unsat += w.sol.NUnsat
		st.Unknown += w.sol.NUnknown
		st.SolverTime += w.sol.Time
		if w.sol.LastErr != "" && len(st.SolverErrs) < 5 {
			st.SolverErrs = append(st.SolverErrs, w.sol.LastErr)
		}
		for f, k := range w.funcs {
			n := 0
			if k == 2 {
				n = -1
			} else {
				for _, b := range f.Blocks {
					n += len(b.Instrs)
				}
			}
			st.Funcs[f.String()] = n
		}
		for k, v := range w.initSkips {
			st.InitSkips[k] = v
		}
		for k := range w.uninitRead {
			if st.UninitReads == nil {
				st.UninitReads = map[string]bool{}
			}
			st.UninitReads[k] = true
		}
	}
	st.Wall = time.Since(t0)
	return st, nil
}

// FuncList returns the encoded hydraide functions (sorted) and counts of library functions.
func (st *ExploreStats) FuncList() (repo []string, libInterp int, intrinsics []string) {
	for name, n := range st.Funcs {
		if n < 0 {
			intrinsics = append(intrinsics, name)
			continue
		}
		if strings.Contains(name, RepoModule) {
			repo = append(repo, fmt.Sprintf("%s [%d instrs]", strings.ReplaceAll(name, RepoModule+"/", ""), n))
		} else {
			libInterp++
		}
	}
	sort.Strings(repo)
	sort.Strings(intrinsics)
	return
}

func absJoin(dir, rel string) string { return filepath.Join(dir, rel) }
