package sym

import (
	"fmt"
	"go/constant"
	"go/token"
	"go/types"
	"unicode/utf8"

	"golang.org/x/tools/go/ssa"
)

func constantStringVal(c *ssa.Const) string { return constant.StringVal(c.Value) }
func constantBoolVal(c *ssa.Const) bool     { return constant.BoolVal(c.Value) }

// toW widens/narrows an integer term of static type t to width w (sign per t).
func (r *Run) toW(x *Term, t types.Type, w uint8) *Term {
	if x.Kind != KBV {
		panic(fmt.Sprintf("toW of non-BV kind %d", x.Kind))
	}
	if x.W == w {
		return x
	}
	_, _, signed, _ := basicInfo(t)
	if w < x.W {
		return r.st.Extract(x, w-1, 0)
	}
	if signed {
		return r.st.SExt(x, w)
	}
	return r.st.ZExt(x, w)
}

func binop(fr *frame, op token.Token, t types.Type, x, y value) value {
	r := fr.run()
	st := r.st
	switch xv := x.(type) {
	case *Term:
		yv, ok := y.(*Term)
		if !ok {
			panic(fmt.Sprintf("binop %v: %T vs %T", op, x, y))
		}
		return termBinop(fr, op, t, xv, yv)
	case string, symstr:
		switch op {
		case token.ADD:
			return strConcat(x, y)
		case token.EQL:
			return strEq(st, x, y)
		case token.NEQ:
			return st.Not(strEq(st, x, y))
		case token.LSS:
			return strLess(st, x, y, false)
		case token.LEQ:
			return strLess(st, x, y, true)
		case token.GTR:
			return strLess(st, y, x, false)
		case token.GEQ:
			return strLess(st, y, x, true)
		}
	}
	switch op {
	case token.EQL:
		return valEq(fr, t, x, y)
	case token.NEQ:
		return st.Not(valEq(fr, t, x, y))
	}
	panic(unsupported(fmt.Sprintf("binop %v on %T", op, x)))
}

func termBinop(fr *frame, op token.Token, t types.Type, x, y *Term) value {
	r := fr.run()
	st := r.st
	k, w, signed, _ := basicInfo(t)
	if x.Kind == KBool {
		switch op {
		case token.EQL:
			return st.Eq(x, y)
		case token.NEQ:
			return st.Not(st.Eq(x, y))
		case token.AND, token.LAND:
			return st.And(x, y)
		case token.OR, token.LOR:
			return st.Or(x, y)
		}
		panic(unsupported("bool binop " + op.String()))
	}
	if k == KF32 || k == KF64 || x.Kind == KF32 || x.Kind == KF64 {
		switch op {
		case token.ADD:
			return st.FBin(OFAdd, x, y)
		case token.SUB:
			return st.FBin(OFSub, x, y)
		case token.MUL:
			return st.FBin(OFMul, x, y)
		case token.QUO:
			return st.FBin(OFDiv, x, y)
		case token.EQL:
			return st.FCmp(OFEq, x, y)
		case token.NEQ:
			return st.Not(st.FCmp(OFEq, x, y))
		case token.LSS:
			return st.FCmp(OFLt, x, y)
		case token.LEQ:
			return st.FCmp(OFLe, x, y)
		case token.GTR:
			return st.FCmp(OFLt, y, x)
		case token.GEQ:
			return st.FCmp(OFLe, y, x)
		}
		panic(unsupported("float binop " + op.String()))
	}
	_ = w
	switch op {
	case token.ADD:
		return st.BvBin(OBvAdd, x, y)
	case token.SUB:
		return st.BvBin(OBvSub, x, y)
	case token.MUL:
		return st.BvBin(OBvMul, x, y)
	case token.QUO, token.REM:
		if !r.decide(st.Not(st.Eq(y, BV(y.W, 0)))) {
			panic(rtPanic("integer divide by zero"))
		}
		if op == token.QUO {
			if signed {
				return st.BvBin(OBvSDiv, x, y)
			}
			return st.BvBin(OBvUDiv, x, y)
		}
		if signed {
			return st.BvBin(OBvSRem, x, y)
		}
		return st.BvBin(OBvURem, x, y)
	case token.AND:
		return st.BvBin(OBvAnd, x, y)
	case token.OR:
		return st.BvBin(OBvOr, x, y)
	case token.XOR:
		return st.BvBin(OBvXor, x, y)
	case token.AND_NOT:
		return st.BvBin(OBvAnd, x, st.BvNot(y))
	case token.SHL, token.SHR:
		// y may have a different width/sign (static type of y unknown here: SSA guarantees unsigned or checked)
		ys := y
		if ys.W != x.W {
			if ys.W > x.W {
				// count >= width => saturate: if any high bits set the result is 0/sign fill
				hi := st.Extract(ys, ys.W-1, x.W)
				lo := st.Extract(ys, x.W-1, 0)
				big := st.Not(st.Eq(hi, BV(hi.W, 0)))
				ys = st.Ite(big, BV(x.W, uint64(x.W)), lo)
			} else {
				ys = st.ZExt(ys, x.W)
			}
		}
		if op == token.SHL {
			return st.BvBin(OBvShl, x, ys)
		}
		if signed {
			return st.BvBin(OBvAShr, x, ys)
		}
		return st.BvBin(OBvLShr, x, ys)
	case token.EQL:
		return st.Eq(x, y)
	case token.NEQ:
		return st.Not(st.Eq(x, y))
	case token.LSS:
		if signed {
			return st.BvCmp(OBvSlt, x, y)
		}
		return st.BvCmp(OBvUlt, x, y)
	case token.LEQ:
		if signed {
			return st.BvCmp(OBvSle, x, y)
		}
		return st.BvCmp(OBvUle, x, y)
	case token.GTR:
		if signed {
			return st.BvCmp(OBvSlt, y, x)
		}
		return st.BvCmp(OBvUlt, y, x)
	case token.GEQ:
		if signed {
			return st.BvCmp(OBvSle, y, x)
		}
		return st.BvCmp(OBvUle, y, x)
	}
	panic(unsupported("int binop " + op.String()))
}

func strEq(st *Store, a, b value) *Term {
	if x, ok := a.(string); ok {
		if y, ok := b.(string); ok {
			return Bool(x == y)
		}
	}
	if strLen(a) != strLen(b) {
		return falseT
	}
	as, bs := strBytes(a), strBytes(b)
	res := trueT
	for i := range as {
		res = st.And(res, st.Eq(as[i], bs[i]))
		if res.IsConst() && res.K == 0 {
			return falseT
		}
	}
	return res
}

// strLess: lexicographic a < b (or <= when orEq).
func strLess(st *Store, a, b value, orEq bool) *Term {
	if x, ok := a.(string); ok {
		if y, ok := b.(string); ok {
			if orEq {
				return Bool(x <= y)
			}
			return Bool(x < y)
		}
	}
	as, bs := strBytes(a), strBytes(b)
	n := min(len(as), len(bs))
	// tail: all common bytes equal
	var res *Term
	if len(as) < len(bs) {
		res = trueT
	} else if len(as) == len(bs) {
		res = Bool(orEq)
	} else {
		res = falseT
	}
	for i := n - 1; i >= 0; i-- {
		lt := st.BvCmp(OBvUlt, as[i], bs[i])
		eq := st.Eq(as[i], bs[i])
		res = st.Or(lt, st.And(eq, res))
	}
	return res
}

// valEq implements == for non-scalar, non-string operands. t is the static operand type.
func valEq(fr *frame, t types.Type, x, y value) *Term {
	st := fr.run().st
	switch xv := x.(type) {
	case *Term:
		yv := y.(*Term)
		if xv.Kind == KF32 || xv.Kind == KF64 {
			return st.FCmp(OFEq, xv, yv)
		}
		return st.Eq(xv, yv)
	case string, symstr:
		return strEq(st, x, y)
	case *value:
		if yv, ok := y.(*value); ok {
			return Bool(xv == yv)
		}
		return falseT
	case *hmap:
		return Bool(xv == y.(*hmap))
	case *channel:
		return Bool(xv == y.(*channel))
	case *native:
		if yv, ok := y.(*native); ok {
			return Bool(xv == yv)
		}
		return falseT
	case []value:
		// only comparison with nil is legal
		yv := y.([]value)
		return Bool(xv == nil && yv == nil)
	case *ssa.Function:
		switch yv := y.(type) {
		case *ssa.Function:
			return Bool(xv == yv)
		default:
			return Bool(xv == nil && y == nil)
		}
	case *closure:
		if yf, ok := y.(*ssa.Function); ok && yf == nil {
			return falseT
		}
		return Bool(x == y)
	case *nativeFunc:
		return Bool(x == y)
	case timeVal:
		yv := y.(timeVal)
		if xv.isZero || yv.isZero {
			return Bool(xv.isZero == yv.isZero)
		}
		return st.Eq(xv.ns, yv.ns)
	case iface:
		yv := y.(iface)
		if xv.t == nil || yv.t == nil {
			return Bool(xv.t == nil && yv.t == nil)
		}
		if !types.Identical(xv.t, yv.t) {
			return falseT
		}
		if !types.Comparable(xv.t) {
			panic(rtPanic("comparing uncomparable type " + xv.t.String()))
		}
		return valEq(fr, xv.t, xv.v, yv.v)
	case structure:
		yv := y.(structure)
		res := trueT
		for i := range xv {
			res = st.And(res, valEq(fr, nil, xv[i], yv[i]))
		}
		return res
	case array:
		yv := y.(array)
		res := trueT
		for i := range xv {
			res = st.And(res, valEq(fr, nil, xv[i], yv[i]))
		}
		return res
	case nil:
		return Bool(y == nil)
	}
	panic(unsupported(fmt.Sprintf("== on %T", x)))
}

func unop(fr *frame, instr *ssa.UnOp, x value) value {
	st := fr.run().st
	switch instr.Op {
	case token.ARROW:
		return chanRecv(fr, x.(*channel), instr.CommaOk, instr.X.Type().Underlying().(*types.Chan).Elem())
	case token.SUB:
		t := x.(*Term)
		if t.Kind == KBV {
			return st.BvNeg(t)
		}
		return st.FNeg(t)
	case token.MUL:
		p := x.(*value)
		if p == nil {
			panic(rtPanic("invalid memory address or nil pointer dereference"))
		}
		fr.th.raceRead(p, instr)
		return copyVal(*p)
	case token.NOT:
		return st.Not(x.(*Term))
	case token.XOR:
		return st.BvNot(x.(*Term))
	}
	panic(unsupported("unop " + instr.Op.String()))
}

func conv(fr *frame, tdst, tsrc types.Type, x value) value {
	r := fr.run()
	st := r.st
	ud, us := tdst.Underlying(), tsrc.Underlying()
	switch us := us.(type) {
	case *types.Pointer, *types.Signature, *types.Struct, *types.Array, *types.Map, *types.Chan, *types.Interface:
		return x
	case *types.Slice:
		// []byte/[]rune -> string
		if isString(ud) {
			sl := x.([]value)
			if b, ok := us.Elem().Underlying().(*types.Basic); ok && b.Kind() == types.Uint8 {
				bs := make([]*Term, len(sl))
				for i, e := range sl {
					bs[i] = e.(*Term)
				}
				return mkStr(bs)
			}
			// []rune -> string (concrete only)
			var out []byte
			for _, e := range sl {
				t := e.(*Term)
				if !t.IsConst() {
					panic(unsupported("[]rune->string with symbolic rune"))
				}
				out = utf8.AppendRune(out, rune(t.I64()))
			}
			return string(out)
		}
		return x
	case *types.Basic:
		if us.Kind() == types.UnsafePointer {
			return x
		}
		if us.Info()&types.IsString != 0 {
			switch ud := ud.(type) {
			case *types.Slice:
				if b, ok := ud.Elem().Underlying().(*types.Basic); ok && b.Kind() == types.Uint8 {
					bs := strBytes(x)
					out := make([]value, len(bs))
					for i, b := range bs {
						out[i] = b
					}
					return out
				}
				s, ok := x.(string)
				if !ok {
					panic(unsupported("string->[]rune with symbolic bytes"))
				}
				var out []value
				for _, rn := range s {
					out = append(out, BV(32, uint64(rn)))
				}
				if out == nil {
					out = []value{}
				}
				return out
			case *types.Basic:
				if ud.Info()&types.IsString != 0 {
					return x
				}
			}
			panic(unsupported(fmt.Sprintf("conv string -> %v", tdst)))
		}
		if bd, ok := ud.(*types.Basic); ok && bd.Kind() == types.UnsafePointer {
			return x
		}
		// numeric source
		xt := x.(*Term)
		if isString(ud) {
			if !xt.IsConst() {
				panic(unsupported("int->string with symbolic value"))
			}
			return string(rune(xt.I64()))
		}
		dk, dw, dsigned, ok := basicInfo(ud)
		if !ok {
			panic(unsupported(fmt.Sprintf("conv %v -> %v", tsrc, tdst)))
		}
		_, _, ssigned, _ := basicInfo(us)
		switch xt.Kind {
		case KBV:
			switch dk {
			case KBV:
				if dw <= xt.W {
					if dw == xt.W {
						return xt
					}
					return st.Extract(xt, dw-1, 0)
				}
				if ssigned {
					return st.SExt(xt, dw)
				}
				return st.ZExt(xt, dw)
			case KF32, KF64:
				return st.IntToF(xt, ssigned, dk)
			}
		case KF32, KF64:
			switch dk {
			case KF32, KF64:
				return st.FToF(xt, dk)
			case KBV:
				return r.floatToInt(xt, dsigned, dw)
			}
		case KBool:
			if dk == KBool {
				return xt
			}
		}
	}
	panic(unsupported(fmt.Sprintf("conv %v -> %v (%T)", tsrc, tdst, x)))
}

// floatToInt models Go's float->int conversion on amd64. In-range values truncate
// toward zero. Out-of-range/NaN: Go leaves the result implementation-specific; on
// amd64 CVTTSD2SQ yields 0x8000000000000000 ("integer indefinite") for int64.
// For narrower targets Go converts via int64 then truncates (amd64 backend).
// uint64: amd64 lowering handles [2^63,2^64) by subtracting 2^63; others indefinite.
func (r *Run) floatToInt(x *Term, signed bool, w uint8) *Term {
	st := r.st
	if x.IsConst() {
		f := x.F64Val()
		if signed {
			return BV(w, uint64(cvtF64toI64(f)))
		}
		return BV(w, cvtF64toU64(f))
	}
	x64 := st.FToF(x, KF64)
	two63 := F64(9223372036854775808.0)
	inI64 := st.And(st.FCmp(OFLe, F64(-9223372036854775808.0), x64), st.FCmp(OFLt, x64, two63))
	indef := BV(64, 1<<63)
	asI64 := st.Ite(inI64, st.FToInt(x64, true, 64), indef)
	if signed || w < 64 {
		if !signed && w < 64 {
			// uint8/16/32 on amd64: convert via int64 then truncate
			return st.Extract(asI64, w-1, 0)
		}
		if w < 64 {
			return st.Extract(asI64, w-1, 0)
		}
		return asI64
	}
	// uint64
	hiRange := st.And(st.FCmp(OFLe, two63, x64), st.FCmp(OFLt, x64, F64(18446744073709551616.0)))
	hiVal := st.BvBin(OBvXor, st.FToInt(st.FBin(OFSub, x64, two63), true, 64), BV(64, 1<<63))
	return st.Ite(hiRange, hiVal, asI64)
}

func cvtF64toI64(f float64) int64 {
	if f != f || f >= 9223372036854775808.0 || f < -9223372036854775808.0 {
		return -9223372036854775808
	}
	return int64(f)
}

func cvtF64toU64(f float64) uint64 {
	if f >= 9223372036854775808.0 && f < 18446744073709551616.0 {
		return uint64(int64(f-9223372036854775808.0)) ^ (1 << 63)
	}
	return uint64(cvtF64toI64(f))
}

// ---------- builtins ----------

func callBuiltin(caller *frame, fn *ssa.Builtin, args []value) value {
	r := caller.run()
	st := r.st
	switch fn.Name() {
	case "append":
		if len(args) == 1 {
			return args[0]
		}
		var add []value
		switch y := args[1].(type) {
		case string, symstr:
			for _, b := range strBytes(y) {
				add = append(add, b)
			}
		case []value:
			add = y
		}
		if len(add) == 0 {
			return args[0]
		}
		x := args[0].([]value)
		// copy elements (aggregates are values)
		cp := make([]value, len(add))
		for i, e := range add {
			cp[i] = copyVal(e)
		}
		if caller != nil && caller.th.racing() {
			// race detector: the appended elements are read; when the backing array has room
			// the append writes into cells that other slices of the same array may share
			for i := range add {
				caller.th.raceAccess(&add[i], false, nil)
			}
			if len(x)+len(cp) <= cap(x) {
				ext := x[:len(x)+len(cp)]
				for i := len(x); i < len(ext); i++ {
					caller.th.raceAccess(&ext[i], true, nil)
				}
			}
		}
		return append(x, cp...)

	case "copy":
		dst := args[0].([]value)
		var src []value
		switch y := args[1].(type) {
		case string, symstr:
			for _, b := range strBytes(y) {
				src = append(src, b)
			}
		case []value:
			src = y
		}
		if caller != nil && caller.th.racing() {
			for i := 0; i < len(dst) && i < len(src); i++ {
				caller.th.raceAccess(&src[i], false, nil)
				caller.th.raceAccess(&dst[i], true, nil)
			}
		}
		n := copy(dst, src)
		return BV(64, uint64(n))

	case "close":
		chanClose(caller, args[0].(*channel))
		return nil

	case "delete":
		m := args[0].(*hmap)
		if m != nil {
			caller.th.raceMapWrite(m, nil)
			m.delete(caller, args[1])
		}
		return nil

	case "print", "println":
		return nil

	case "len":
		switch x := args[0].(type) {
		case string:
			return BV(64, uint64(len(x)))
		case symstr:
			return BV(64, uint64(len(x)))
		case array:
			return BV(64, uint64(len(x)))
		case *value:
			if x == nil {
				return BV(64, 0)
			}
			return BV(64, uint64(len((*x).(array))))
		case []value:
			return BV(64, uint64(len(x)))
		case *hmap:
			if x == nil {
				return BV(64, 0)
			}
			caller.th.raceMapRead(x, nil)
			return BV(64, uint64(x.length()))
		case *channel:
			if x == nil {
				return BV(64, 0)
			}
			return BV(64, uint64(len(x.buf)))
		}
		panic(fmt.Sprintf("len: illegal operand: %T", args[0]))

	case "cap":
		switch x := args[0].(type) {
		case array:
			return BV(64, uint64(len(x)))
		case *value:
			return BV(64, uint64(len((*x).(array))))
		case []value:
			return BV(64, uint64(cap(x)))
		case *channel:
			if x == nil {
				return BV(64, 0)
			}
			return BV(64, uint64(x.capacity))
		}
		panic(fmt.Sprintf("cap: illegal operand: %T", args[0]))

	case "min", "max":
		res := args[0]
		for _, a := range args[1:] {
			switch x := res.(type) {
			case *Term:
				y := a.(*Term)
				var lt *Term
				if x.Kind == KBV {
					// need signedness: infer from builtin signature
					sig := fn.Type().(*types.Signature)
					_, _, signed, _ := basicInfo(sig.Params().At(0).Type())
					if signed {
						lt = st.BvCmp(OBvSlt, x, y)
					} else {
						lt = st.BvCmp(OBvUlt, x, y)
					}
				} else {
					if !x.IsConst() || !y.IsConst() {
						panic(unsupported("min/max on symbolic floats"))
					}
					lt = st.FCmp(OFLt, x, y)
				}
				if fn.Name() == "min" {
					res = st.Ite(lt, x, y)
				} else {
					res = st.Ite(lt, y, x)
				}
			default:
				panic(unsupported("min/max on strings"))
			}
		}
		return res

	case "clear":
		switch x := args[0].(type) {
		case *hmap:
			if x != nil {
				x.clear()
			}
		case []value:
			for i := range x {
				x[i] = zeroLike(x[i])
			}
		}
		return nil

	case "recover":
		return doRecover(caller)

	case "ssa:wrapnilchk":
		recv := args[0]
		if p, ok := recv.(*value); ok && p == nil {
			panic(rtPanic(fmt.Sprintf("value method %s.%s called using nil pointer", toString(args[1]), toString(args[2]))))
		}
		return recv

	case "ssa:deferstack":
		return &caller.defers

	case "String": // unsafe.String(ptr, len)
		panic(unsupported("unsafe.String"))
	case "SliceData", "StringData", "Slice", "Add":
		panic(unsupported("unsafe." + fn.Name()))
	}
	panic(unsupported("builtin " + fn.Name()))
}

func zeroLike(v value) value {
	switch v := v.(type) {
	case *Term:
		switch v.Kind {
		case KBool:
			return falseT
		case KBV:
			return BV(v.W, 0)
		case KF32:
			return F32(0)
		default:
			return F64(0)
		}
	case string, symstr:
		return ""
	case structure:
		s := make(structure, len(v))
		for i := range v {
			s[i] = zeroLike(v[i])
		}
		return s
	case array:
		s := make(array, len(v))
		for i := range v {
			s[i] = zeroLike(v[i])
		}
		return s
	case *value:
		return (*value)(nil)
	case []value:
		return []value(nil)
	case iface:
		return iface{}
	case *hmap:
		return (*hmap)(nil)
	case timeVal:
		return timeVal{ns: BV(64, 0), isZero: true}
	}
	panic(unsupported(fmt.Sprintf("zeroLike %T", v)))
}

// ---------- iteration ----------

type iter interface {
	next(fr *frame) tuple
}

type stringIter struct {
	s   string
	pos int
}

func (it *stringIter) next(fr *frame) tuple {
	if it.pos >= len(it.s) {
		return tuple{falseT, BV(64, 0), BV(32, 0)}
	}
	rn, sz := utf8.DecodeRuneInString(it.s[it.pos:])
	p := it.pos
	it.pos += sz
	return tuple{trueT, BV(64, uint64(p)), BV(32, uint64(rn))}
}

// symStringIter ranges over a symbolic string assuming... each byte is decided ASCII or not.
type symStringIter struct {
	s   symstr
	pos int
}

func (it *symStringIter) next(fr *frame) tuple {
	if it.pos >= len(it.s) {
		return tuple{falseT, BV(64, 0), BV(32, 0)}
	}
	r := fr.run()
	b := it.s[it.pos]
	if !b.IsConst() {
		// ASCII side is exact; non-ASCII side is unsupported (multi-byte decoding of symbolic bytes)
		if !r.decide(r.st.BvCmp(OBvUlt, b, BV(8, 0x80))) {
			panic(abortPath{"unsupported", "range over symbolic string with non-ASCII byte"})
		}
	} else if b.K >= 0x80 {
		panic(unsupported("range over symstr with concrete non-ASCII byte"))
	}
	p := it.pos
	it.pos++
	return tuple{trueT, BV(64, uint64(p)), r.st.ZExt(b, 32)}
}

func rangeIter(fr *frame, x value, instr *ssa.Range) iter {
	switch x := x.(type) {
	case *hmap:
		if x == nil {
			return &mapIter{}
		}
		fr.th.raceMapRead(x, instr)
		return x.iterator(fr)
	case string:
		return &stringIter{s: x}
	case symstr:
		return &symStringIter{s: x}
	}
	panic(fmt.Sprintf("cannot range over %T", x))
}

func lookup(fr *frame, instr *ssa.Lookup, x, idx value) value {
	switch x := x.(type) {
	case *hmap:
		var v value
		ok := false
		if x != nil {
			fr.th.raceMapRead(x, instr)
			v, ok = x.lookup(fr, idx)
		}
		if !ok {
			v = zero(instr.X.Type().Underlying().(*types.Map).Elem())
		} else {
			v = copyVal(v)
		}
		if instr.CommaOk {
			return tuple{v, Bool(ok)}
		}
		return v
	case string, symstr:
		return indexRead(fr, idx.(*Term), strLen(x), instr.Index.Type(), func(i int) value { return strByte(x, i) })
	}
	panic(fmt.Sprintf("unexpected x type in Lookup: %T", x))
}
