package sym

import (
	"fmt"
	"strings"
)

const verifrtPath = RepoModule + "/app/verifrt"

func hRun(args []value) *Run { return args[0].(*native).obj.(*Run) }

func argStr(v value) string {
	s, ok := v.(string)
	if !ok {
		panic(unsupported("harness API string argument must be concrete"))
	}
	return s
}

func argInt(v value) int {
	t := v.(*Term)
	if !t.IsConst() {
		panic(unsupported("harness API int argument must be concrete"))
	}
	return int(t.I64())
}

func (r *Run) newInput(fn, name string, kind Kind, w uint8) *Term {
	// unique SMT name per call: name#k
	n := 0
	for _, in := range r.inputs {
		if in.Name == name {
			n++
		}
	}
	full := name
	if n > 0 {
		full = fmt.Sprintf("%s#%d", name, n)
	}
	t := r.st.Var("in!"+full, kind, w)
	r.inputs = append(r.inputs, inputRec{Fn: fn, Name: name, Terms: []*Term{t}, W: w})
	return t
}

func registerHarnessAPI(e *Engine) {
	m := func(name string, f intrinsicFn) {
		e.intr["(*"+verifrtPath+".H)."+name] = f
	}
	scalar := func(fn string, kind Kind, w uint8) intrinsicFn {
		return func(fr *frame, args []value) value {
			return hRun(args).newInput(fn, argStr(args[1]), kind, w)
		}
	}
	m("Int64", scalar("Int64", KBV, 64))
	m("Int", scalar("Int", KBV, 64))
	m("Uint64", scalar("Uint64", KBV, 64))
	m("Int32", scalar("Int32", KBV, 32))
	m("Uint32", scalar("Uint32", KBV, 32))
	m("Int16", scalar("Int16", KBV, 16))
	m("Uint16", scalar("Uint16", KBV, 16))
	m("Int8", scalar("Int8", KBV, 8))
	m("Uint8", scalar("Uint8", KBV, 8))
	m("Bool", scalar("Bool", KBool, 0))
	m("Float64", scalar("Float64", KF64, 0))
	m("Float32", scalar("Float32", KF32, 0))
	m("IntRange", func(fr *frame, args []value) value {
		r := hRun(args)
		lo, hi := argInt(args[2]), argInt(args[3])
		t := r.newInput("IntRange", argStr(args[1]), KBV, 64)
		r.assume(r.st.And(r.st.BvCmp(OBvSle, BV(64, uint64(lo)), t), r.st.BvCmp(OBvSle, t, BV(64, uint64(hi)))))
		return t
	})
	m("Len", func(fr *frame, args []value) value {
		r := hRun(args)
		lo, hi := argInt(args[2]), argInt(args[3])
		if hi < lo {
			panic(abortPath{"assumed-false", "empty Len range"})
		}
		c := r.choose(hi-lo+1, "len")
		r.inputs = append(r.inputs, inputRec{Fn: "Len", Name: argStr(args[1]), IsConc: true, Conc: uint64(lo + c)})
		return BV(64, uint64(lo+c))
	})
	m("Choose", func(fr *frame, args []value) value {
		r := hRun(args)
		n := argInt(args[2])
		c := r.choose(n, "choose")
		r.inputs = append(r.inputs, inputRec{Fn: "Choose", Name: argStr(args[1]), IsConc: true, Conc: uint64(c)})
		return BV(64, uint64(c))
	})
	m("Bytes", func(fr *frame, args []value) value {
		r := hRun(args)
		name := argStr(args[1])
		n := argInt(args[2])
		in := inputRec{Fn: "Bytes", Name: name}
		k := 0
		for _, x := range r.inputs {
			if x.Name == name {
				k++
			}
		}
		out := make([]value, n)
		for i := 0; i < n; i++ {
			full := fmt.Sprintf("in!%s[%d]", name, i)
			if k > 0 {
				full = fmt.Sprintf("in!%s#%d[%d]", name, k, i)
			}
			t := r.st.Var(full, KBV, 8)
			in.Terms = append(in.Terms, t)
			out[i] = t
		}
		r.inputs = append(r.inputs, in)
		return out
	})
	m("String", func(fr *frame, args []value) value {
		r := hRun(args)
		name := argStr(args[1])
		n := argInt(args[2])
		in := inputRec{Fn: "Bytes", Name: name}
		k := 0
		for _, x := range r.inputs {
			if x.Name == name {
				k++
			}
		}
		bs := make([]*Term, n)
		for i := 0; i < n; i++ {
			full := fmt.Sprintf("in!%s[%d]", name, i)
			if k > 0 {
				full = fmt.Sprintf("in!%s#%d[%d]", name, k, i)
			}
			bs[i] = r.st.Var(full, KBV, 8)
		}
		in.Terms = bs
		r.inputs = append(r.inputs, in)
		return mkStr(bs)
	})
	m("Assume", func(fr *frame, args []value) value {
		hRun(args).assume(args[1].(*Term))
		return nil
	})
	m("Assert", func(fr *frame, args []value) value {
		hRun(args).assertCond(args[1].(*Term), argStr(args[2]), fr.caller)
		return nil
	})
	m("Cover", func(fr *frame, args []value) value {
		hRun(args).covers[argStr(args[1])] = true
		return nil
	})
	m("Known", func(fr *frame, args []value) value {
		r := hRun(args)
		r.known = append(r.known, knownRegion{id: argStr(args[1]), prefix: argStr(args[2]), cond: args[3].(*Term)})
		return nil
	})
	m("ClearKnown", func(fr *frame, args []value) value {
		hRun(args).known = nil
		return nil
	})
	m("Observe", func(fr *frame, args []value) value {
		r := hRun(args)
		v := args[2]
		if i, ok := v.(iface); ok {
			v = i.v
		}
		r.observes = append(r.observes, obsRec{key: argStr(args[1]), term: v})
		return nil
	})
	m("Param", func(fr *frame, args []value) value {
		r := hRun(args)
		if v, ok := r.cfg.Params[argStr(args[1])]; ok {
			return BV(64, uint64(v))
		}
		return args[2]
	})
	m("Native", func(fr *frame, args []value) value { return falseT })
	m("Concrete", func(fr *frame, args []value) value {
		r := hRun(args)
		t := args[1].(*Term)
		return BV(64, r.concretize(t, 0, "h.Concrete"))
	})
	m("ConcreteBool", func(fr *frame, args []value) value {
		return Bool(hRun(args).decideKind(args[1].(*Term), "h.bool"))
	})
	m("Go", func(fr *frame, args []value) value {
		r := hRun(args)
		nt := r.newThread(argStr(args[1]), args[2], nil)
		nt.vc = fr.th.vc.fork(fr.th, nt)
		nt.start()
		return nil
	})
	m("Daemon", func(fr *frame, args []value) value {
		fr.th.daemon = true
		return nil
	})
	m("Yield", func(fr *frame, args []value) value {
		fr.th.point("yield")
		return nil
	})
	m("AtQuiescence", func(fr *frame, args []value) value {
		r := hRun(args)
		r.quiesce = append(r.quiesce, args[1])
		return nil
	})
	m("MapOrderNondet", func(fr *frame, args []value) value {
		r := hRun(args)
		r.cfg.MapOrderNondet = args[1].(*Term).K != 0
		return nil
	})
	m("BackgroundLowPriority", func(fr *frame, args []value) value {
		hRun(args).cfg.BgLowPrio = args[1].(*Term).K != 0
		return nil
	})
	m("Stub", func(fr *frame, args []value) value {
		r := hRun(args)
		f := args[2]
		if i, ok := f.(iface); ok {
			f = i.v
		}
		r.stubs[argStr(args[1])] = f
		return nil
	})
	m("TempDir", func(fr *frame, args []value) value {
		r := hRun(args)
		r.fsInit()
		return "/vfs"
	})
	m("NoPreempt", func(fr *frame, args []value) value {
		if args[1].(*Term).K != 0 {
			fr.th.noPreempt++
		} else {
			fr.th.noPreempt--
		}
		return nil
	})
	m("Logf", func(fr *frame, args []value) value { return nil })
	registerFSAPI(e, m)
}

func labelOK(s string) bool { return !strings.ContainsAny(s, " \n") }
