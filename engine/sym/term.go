// Package sym: hash-consed SMT term DAG with constant folding, SMT-LIB printing,
// solver pipes, the go/ssa symbolic interpreter, scheduler, FS model, exploration.
package sym

import (
	"fmt"
	"math"
	"math/bits"
	"strings"
)

type Kind uint8

const (
	KBool Kind = iota
	KBV
	KF32
	KF64
)

type Op uint8

const (
	OConst Op = iota
	OVar
	ONot
	OAnd
	OOr
	OIte
	OEq
	OBvAdd
	OBvSub
	OBvMul
	OBvUDiv
	OBvSDiv
	OBvURem
	OBvSRem
	OBvAnd
	OBvOr
	OBvXor
	OBvNot
	OBvNeg
	OBvShl
	OBvLShr
	OBvAShr
	OBvUlt
	OBvUle
	OBvSlt
	OBvSle
	OConcat
	OExtract // K = hi<<8|lo
	OZExt    // to width W
	OSExt    // to width W
	OFAdd
	OFSub
	OFMul
	OFDiv
	OFNeg
	OFLt
	OFLe
	OFEq // IEEE equality
	OFIsNaN
	OFFromSBV // int -> float (W = source irrelevant)
	OFFromUBV
	OFToSBV // float -> BV W, RTZ
	OFToUBV
	OFToF // float -> float (kind says target)
	OFFromBits
	OUF // uninterpreted function application: Name, Args
)

var opNames = map[Op]string{
	ONot: "not", OAnd: "and", OOr: "or", OIte: "ite", OEq: "=",
	OBvAdd: "bvadd", OBvSub: "bvsub", OBvMul: "bvmul", OBvUDiv: "bvudiv", OBvSDiv: "bvsdiv",
	OBvURem: "bvurem", OBvSRem: "bvsrem", OBvAnd: "bvand", OBvOr: "bvor", OBvXor: "bvxor",
	OBvNot: "bvnot", OBvNeg: "bvneg", OBvShl: "bvshl", OBvLShr: "bvlshr", OBvAShr: "bvashr",
	OBvUlt: "bvult", OBvUle: "bvule", OBvSlt: "bvslt", OBvSle: "bvsle", OConcat: "concat",
	OFLt: "fp.lt", OFLe: "fp.leq", OFEq: "fp.eq", OFIsNaN: "fp.isNaN", OFNeg: "fp.neg",
}

// Term is an immutable node. Terms are interned per TermStore (one per path run).
type Term struct {
	Op      Op
	Kind    Kind
	W       uint8 // bit width for KBV
	A, B, C *Term
	K       uint64 // constant bits / extract hi,lo
	Name    string
	Args    []*Term
	id      int32
	hasVar  bool
}

func (t *Term) IsConst() bool { return t.Op == OConst }
func (t *Term) IsSym() bool   { return t.Op != OConst }

type tkey struct {
	op      Op
	kind    Kind
	w       uint8
	a, b, c *Term
	k       uint64
	name    string
}

// Store interns non-constant terms. Not safe for concurrent use; one per worker run.
type Store struct {
	tab    map[tkey]*Term
	nextID int32
	vars   []*Term
	ufs    map[string]*Term // first application per UF name (for declaration)
	fresh  int
}

func NewStore() *Store {
	return &Store{tab: map[tkey]*Term{}, ufs: map[string]*Term{}}
}

func mask(w uint8) uint64 {
	if w >= 64 {
		return ^uint64(0)
	}
	return (uint64(1) << w) - 1
}

var (
	trueT  = &Term{Op: OConst, Kind: KBool, K: 1}
	falseT = &Term{Op: OConst, Kind: KBool, K: 0}
)

func Bool(b bool) *Term {
	if b {
		return trueT
	}
	return falseT
}

var smallConsts [5][256]*Term // index by width class

func wclass(w uint8) int {
	switch w {
	case 8:
		return 0
	case 16:
		return 1
	case 32:
		return 2
	case 64:
		return 3
	}
	return 4
}

func init() {
	ws := []uint8{8, 16, 32, 64}
	for i, w := range ws {
		for v := 0; v < 256; v++ {
			smallConsts[i][v] = &Term{Op: OConst, Kind: KBV, W: w, K: uint64(v)}
		}
	}
}

func BV(w uint8, v uint64) *Term {
	v &= mask(w)
	if v < 256 {
		if c := wclass(w); c < 4 {
			return smallConsts[c][v]
		}
	}
	return &Term{Op: OConst, Kind: KBV, W: w, K: v}
}

func F64(f float64) *Term { return &Term{Op: OConst, Kind: KF64, K: math.Float64bits(f)} }
func F32(f float32) *Term { return &Term{Op: OConst, Kind: KF32, K: uint64(math.Float32bits(f))} }

func (t *Term) BoolVal() bool { return t.K != 0 }
func (t *Term) U64() uint64   { return t.K }
func (t *Term) I64() int64 { // sign-extended value of BV const
	return sext(t.K, t.W)
}
func (t *Term) F64Val() float64 {
	if t.Kind == KF32 {
		return float64(math.Float32frombits(uint32(t.K)))
	}
	return math.Float64frombits(t.K)
}

func sext(v uint64, w uint8) int64 {
	if w >= 64 {
		return int64(v)
	}
	sh := 64 - uint(w)
	return int64(v<<sh) >> sh
}

func (s *Store) mk(op Op, kind Kind, w uint8, a, b, c *Term, k uint64, name string) *Term {
	key := tkey{op, kind, w, a, b, c, k, name}
	if t, ok := s.tab[key]; ok {
		return t
	}
	s.nextID++
	t := &Term{Op: op, Kind: kind, W: w, A: a, B: b, C: c, K: k, Name: name, id: s.nextID}
	s.tab[key] = t
	return t
}

// Var creates (or returns) a named input constant.
func (s *Store) Var(name string, kind Kind, w uint8) *Term {
	key := tkey{op: OVar, kind: kind, w: w, name: name}
	if t, ok := s.tab[key]; ok {
		return t
	}
	t := s.mk(OVar, kind, w, nil, nil, nil, 0, name)
	s.vars = append(s.vars, t)
	return t
}

func (s *Store) Fresh(prefix string, kind Kind, w uint8) *Term {
	s.fresh++
	return s.Var(fmt.Sprintf("%s!%d", prefix, s.fresh), kind, w)
}

func (s *Store) UF(name string, kind Kind, w uint8, args ...*Term) *Term {
	allc := true
	for _, a := range args {
		if !a.IsConst() {
			allc = false
		}
	}
	_ = allc
	// intern by printing arg ids
	var sb strings.Builder
	sb.WriteString(name)
	for _, a := range args {
		if a.IsConst() {
			fmt.Fprintf(&sb, ",c%d:%d:%x", a.Kind, a.W, a.K)
		} else {
			fmt.Fprintf(&sb, ",t%d", a.id)
		}
	}
	key := tkey{op: OUF, kind: kind, w: w, name: sb.String()}
	if t, ok := s.tab[key]; ok {
		return t
	}
	s.nextID++
	t := &Term{Op: OUF, Kind: kind, W: w, Name: name, Args: append([]*Term(nil), args...), id: s.nextID}
	s.tab[key] = t
	if _, ok := s.ufs[name]; !ok {
		s.ufs[name] = t
	}
	return t
}

// ---------- boolean ----------

func (s *Store) Not(a *Term) *Term {
	if a.IsConst() {
		return Bool(a.K == 0)
	}
	if a.Op == ONot {
		return a.A
	}
	return s.mk(ONot, KBool, 0, a, nil, nil, 0, "")
}

func (s *Store) And(a, b *Term) *Term {
	if a.IsConst() {
		if a.K == 0 {
			return falseT
		}
		return b
	}
	if b.IsConst() {
		if b.K == 0 {
			return falseT
		}
		return a
	}
	if a == b {
		return a
	}
	if (a.Op == ONot && a.A == b) || (b.Op == ONot && b.A == a) {
		return falseT
	}
	return s.mk(OAnd, KBool, 0, a, b, nil, 0, "")
}

func (s *Store) Or(a, b *Term) *Term {
	if a.IsConst() {
		if a.K != 0 {
			return trueT
		}
		return b
	}
	if b.IsConst() {
		if b.K != 0 {
			return trueT
		}
		return a
	}
	if a == b {
		return a
	}
	if (a.Op == ONot && a.A == b) || (b.Op == ONot && b.A == a) {
		return trueT
	}
	return s.mk(OOr, KBool, 0, a, b, nil, 0, "")
}

func (s *Store) Implies(a, b *Term) *Term { return s.Or(s.Not(a), b) }

func (s *Store) Ite(c, a, b *Term) *Term {
	if c.IsConst() {
		if c.K != 0 {
			return a
		}
		return b
	}
	if a == b {
		return a
	}
	if a.IsConst() && b.IsConst() && a.Kind == b.Kind && a.W == b.W && a.K == b.K {
		return a
	}
	if a.Kind == KBool {
		if a.IsConst() && b.IsConst() {
			if a.K != 0 {
				return c
			}
			return s.Not(c)
		}
		if a.IsConst() {
			if a.K != 0 {
				return s.Or(c, b)
			}
			return s.And(s.Not(c), b)
		}
		if b.IsConst() {
			if b.K != 0 {
				return s.Or(s.Not(c), a)
			}
			return s.And(c, a)
		}
	}
	return s.mk(OIte, a.Kind, a.W, c, a, b, 0, "")
}

func sameConst(a, b *Term) bool { return a.Kind == b.Kind && a.W == b.W && a.K == b.K }

// Eq is structural/bitwise equality for Bool and BV; for floats use FEq (IEEE) explicitly.
func (s *Store) Eq(a, b *Term) *Term {
	if a.Kind != b.Kind || a.W != b.W {
		panic(fmt.Sprintf("Eq sort mismatch: %v/%d vs %v/%d", a.Kind, a.W, b.Kind, b.W))
	}
	if a.IsConst() && b.IsConst() {
		return Bool(a.K == b.K)
	}
	if a == b {
		return trueT
	}
	if a.Kind == KBool {
		if a.IsConst() {
			if a.K != 0 {
				return b
			}
			return s.Not(b)
		}
		if b.IsConst() {
			if b.K != 0 {
				return a
			}
			return s.Not(a)
		}
	}
	// ite(c, k1, k2) == k  folding
	if b.IsConst() && a.Op == OIte && a.B.IsConst() && a.C.IsConst() {
		return s.Ite(a.A, Bool(a.B.K == b.K), Bool(a.C.K == b.K))
	}
	if a.IsConst() && b.Op == OIte && b.B.IsConst() && b.C.IsConst() {
		return s.Ite(b.A, Bool(b.B.K == a.K), Bool(b.C.K == a.K))
	}
	// zext(x) == const
	if b.IsConst() && a.Op == OZExt {
		if b.K > mask(a.A.W) {
			return falseT
		}
		return s.Eq(a.A, BV(a.A.W, b.K))
	}
	if a.IsConst() && b.Op == OZExt {
		return s.Eq(b, a)
	}
	if a.id > b.id && !a.IsConst() && !b.IsConst() {
		a, b = b, a
	}
	return s.mk(OEq, KBool, 0, a, b, nil, 0, "")
}

// ---------- bit-vectors ----------

func (s *Store) BvBin(op Op, a, b *Term) *Term {
	if a.Kind != KBV || b.Kind != KBV || a.W != b.W {
		panic(fmt.Sprintf("BvBin %v sort mismatch: %v/%d vs %v/%d", opNames[op], a.Kind, a.W, b.Kind, b.W))
	}
	w := a.W
	m := mask(w)
	if a.IsConst() && b.IsConst() {
		x, y := a.K, b.K
		var r uint64
		switch op {
		case OBvAdd:
			r = x + y
		case OBvSub:
			r = x - y
		case OBvMul:
			r = x * y
		case OBvUDiv:
			if y == 0 {
				r = m
			} else {
				r = x / y
			}
		case OBvURem:
			if y == 0 {
				r = x
			} else {
				r = x % y
			}
		case OBvSDiv:
			sx, sy := sext(x, w), sext(y, w)
			if sy == 0 {
				if sx >= 0 {
					r = m
				} else {
					r = 1
				}
			} else if sy == -1 {
				r = uint64(-sx)
			} else {
				r = uint64(sx / sy)
			}
		case OBvSRem:
			sx, sy := sext(x, w), sext(y, w)
			if sy == 0 {
				r = x
			} else if sy == -1 {
				r = 0
			} else {
				r = uint64(sx % sy)
			}
		case OBvAnd:
			r = x & y
		case OBvOr:
			r = x | y
		case OBvXor:
			r = x ^ y
		case OBvShl:
			if y >= uint64(w) {
				r = 0
			} else {
				r = x << y
			}
		case OBvLShr:
			if y >= uint64(w) {
				r = 0
			} else {
				r = x >> y
			}
		case OBvAShr:
			sx := sext(x, w)
			if y >= uint64(w) {
				if sx < 0 {
					r = m
				} else {
					r = 0
				}
			} else {
				r = uint64(sx >> y)
			}
		default:
			panic("BvBin op")
		}
		return BV(w, r)
	}
	// identities
	switch op {
	case OBvAdd:
		if a.IsConst() && a.K == 0 {
			return b
		}
		if b.IsConst() && b.K == 0 {
			return a
		}
		if a.IsConst() { // canonical: const on right
			a, b = b, a
		}
		// (x + c1) + c2
		if b.IsConst() && a.Op == OBvAdd && a.B.IsConst() {
			return s.BvBin(OBvAdd, a.A, BV(w, a.B.K+b.K))
		}
	case OBvSub:
		if b.IsConst() && b.K == 0 {
			return a
		}
		if a == b {
			return BV(w, 0)
		}
		if b.IsConst() {
			return s.BvBin(OBvAdd, a, BV(w, -b.K))
		}
	case OBvMul:
		if a.IsConst() {
			a, b = b, a
		}
		if b.IsConst() {
			if b.K == 0 {
				return BV(w, 0)
			}
			if b.K == 1 {
				return a
			}
		}
	case OBvAnd:
		if a.IsConst() {
			a, b = b, a
		}
		if b.IsConst() {
			if b.K == 0 {
				return BV(w, 0)
			}
			if b.K == m {
				return a
			}
			// zext(x) & mask covering x
			if a.Op == OZExt && b.K&mask(a.A.W) == mask(a.A.W) {
				return a
			}
		}
		if a == b {
			return a
		}
	case OBvOr:
		if a.IsConst() {
			a, b = b, a
		}
		if b.IsConst() {
			if b.K == 0 {
				return a
			}
			if b.K == m {
				return b
			}
		}
		if a == b {
			return a
		}
	case OBvXor:
		if a.IsConst() {
			a, b = b, a
		}
		if b.IsConst() && b.K == 0 {
			return a
		}
		if a == b {
			return BV(w, 0)
		}
	case OBvShl, OBvLShr, OBvAShr:
		if b.IsConst() && b.K == 0 {
			return a
		}
		if b.IsConst() && b.K >= uint64(w) && op != OBvAShr {
			return BV(w, 0)
		}
		// lshr(zext(x), k*8) where result fits: lower to extract for byte-splitting patterns
		if op == OBvLShr && b.IsConst() {
			k := uint8(b.K)
			// (x >> k) = zext(extract(w-1,k,x))
			return s.ZExt(s.Extract(a, w-1, k), w)
		}
		if op == OBvShl && b.IsConst() {
			k := uint8(b.K)
			// x << k = concat(extract(w-1-k,0,x), 0_k)
			return s.Concat(s.Extract(a, w-1-k, 0), BV(k, 0))
		}
	case OBvUDiv:
		if b.IsConst() && b.K == 1 {
			return a
		}
		if b.IsConst() && b.K != 0 && b.K&(b.K-1) == 0 {
			return s.BvBin(OBvLShr, a, BV(w, uint64(bits.TrailingZeros64(b.K))))
		}
	case OBvURem:
		if b.IsConst() && b.K == 1 {
			return BV(w, 0)
		}
		if b.IsConst() && b.K != 0 && b.K&(b.K-1) == 0 {
			return s.BvBin(OBvAnd, a, BV(w, b.K-1))
		}
	}
	return s.mk(op, KBV, w, a, b, nil, 0, "")
}

func (s *Store) BvNot(a *Term) *Term {
	if a.IsConst() {
		return BV(a.W, ^a.K)
	}
	if a.Op == OBvNot {
		return a.A
	}
	return s.mk(OBvNot, KBV, a.W, a, nil, nil, 0, "")
}

func (s *Store) BvNeg(a *Term) *Term {
	if a.IsConst() {
		return BV(a.W, -a.K)
	}
	return s.mk(OBvNeg, KBV, a.W, a, nil, nil, 0, "")
}

func (s *Store) BvCmp(op Op, a, b *Term) *Term {
	if a.Kind != KBV || b.Kind != KBV || a.W != b.W {
		panic(fmt.Sprintf("BvCmp sort mismatch %d vs %d", a.W, b.W))
	}
	if a.IsConst() && b.IsConst() {
		switch op {
		case OBvUlt:
			return Bool(a.K < b.K)
		case OBvUle:
			return Bool(a.K <= b.K)
		case OBvSlt:
			return Bool(sext(a.K, a.W) < sext(b.K, b.W))
		case OBvSle:
			return Bool(sext(a.K, a.W) <= sext(b.K, b.W))
		}
	}
	if a == b {
		return Bool(op == OBvUle || op == OBvSle)
	}
	m := mask(a.W)
	switch op {
	case OBvUlt:
		if b.IsConst() && b.K == 0 {
			return falseT
		}
		if a.IsConst() && a.K == m {
			return falseT
		}
		// zext(x) < c with c > max(x)
		if b.IsConst() && a.Op == OZExt && b.K > mask(a.A.W) {
			return trueT
		}
		if a.IsConst() && b.Op == OZExt && a.K >= mask(b.A.W) {
			return falseT
		}
	case OBvUle:
		if a.IsConst() && a.K == 0 {
			return trueT
		}
		if b.IsConst() && b.K == m {
			return trueT
		}
		if b.IsConst() && a.Op == OZExt && b.K >= mask(a.A.W) {
			return trueT
		}
		if a.IsConst() && b.Op == OZExt && a.K > mask(b.A.W) {
			return falseT
		}
	case OBvSlt:
		// zext(x) (narrower) is non-negative
		if b.IsConst() && a.Op == OZExt && a.A.W < a.W {
			sb := sext(b.K, b.W)
			if sb <= 0 {
				return falseT
			}
			if uint64(sb) > mask(a.A.W) {
				return trueT
			}
		}
		if a.IsConst() && b.Op == OZExt && b.A.W < b.W {
			sa := sext(a.K, a.W)
			if sa < 0 {
				return trueT
			}
			if uint64(sa) >= mask(b.A.W) {
				return falseT
			}
		}
	case OBvSle:
		if b.IsConst() && a.Op == OZExt && a.A.W < a.W {
			sb := sext(b.K, b.W)
			if sb < 0 {
				return falseT
			}
			if uint64(sb) >= mask(a.A.W) {
				return trueT
			}
		}
		if a.IsConst() && b.Op == OZExt && b.A.W < b.W {
			sa := sext(a.K, a.W)
			if sa <= 0 {
				return trueT
			}
			if uint64(sa) > mask(b.A.W) {
				return falseT
			}
		}
	}
	return s.mk(op, KBool, 0, a, b, nil, 0, "")
}

func (s *Store) Concat(hi, lo *Term) *Term {
	w := hi.W + lo.W
	if hi.IsConst() && lo.IsConst() {
		return BV(w, hi.K<<lo.W|lo.K)
	}
	// concat(extract(h,m+1,x), extract(m,l,x)) -> extract(h,l,x)
	if hi.Op == OExtract && lo.Op == OExtract && hi.A == lo.A {
		hh, hl := uint8(hi.K>>8), uint8(hi.K)
		lh, ll := uint8(lo.K>>8), uint8(lo.K)
		if hl == lh+1 {
			return s.Extract(hi.A, hh, ll)
		}
	}
	if hi.IsConst() && hi.K == 0 {
		return s.ZExt(lo, w)
	}
	return s.mk(OConcat, KBV, w, hi, lo, nil, 0, "")
}

func (s *Store) Extract(a *Term, hi, lo uint8) *Term {
	if hi < lo || hi >= a.W {
		panic(fmt.Sprintf("Extract(%d,%d) of width %d", hi, lo, a.W))
	}
	w := hi - lo + 1
	if w == a.W {
		return a
	}
	if a.IsConst() {
		return BV(w, a.K>>lo)
	}
	switch a.Op {
	case OExtract:
		l0 := uint8(a.K)
		return s.Extract(a.A, hi+l0, lo+l0)
	case OConcat:
		lw := a.B.W
		if hi < lw {
			return s.Extract(a.B, hi, lo)
		}
		if lo >= lw {
			return s.Extract(a.A, hi-lw, lo-lw)
		}
		return s.Concat(s.Extract(a.A, hi-lw, 0), s.Extract(a.B, lw-1, lo))
	case OZExt:
		iw := a.A.W
		if hi < iw {
			return s.Extract(a.A, hi, lo)
		}
		if lo >= iw {
			return BV(w, 0)
		}
		return s.ZExt(s.Extract(a.A, iw-1, lo), w)
	case OSExt:
		iw := a.A.W
		if hi < iw {
			return s.Extract(a.A, hi, lo)
		}
	case OIte:
		if a.B.IsConst() || a.C.IsConst() {
			return s.Ite(a.A, s.Extract(a.B, hi, lo), s.Extract(a.C, hi, lo))
		}
	case OBvAnd, OBvOr, OBvXor:
		if a.B.IsConst() {
			return s.BvBin(a.Op, s.Extract(a.A, hi, lo), s.Extract(a.B, hi, lo))
		}
	}
	return s.mk(OExtract, KBV, w, a, nil, nil, uint64(hi)<<8|uint64(lo), "")
}

func (s *Store) ZExt(a *Term, w uint8) *Term {
	if w == a.W {
		return a
	}
	if w < a.W {
		return s.Extract(a, w-1, 0)
	}
	if a.IsConst() {
		return BV(w, a.K)
	}
	if a.Op == OZExt {
		return s.ZExt(a.A, w)
	}
	if a.Op == OIte && a.B.IsConst() && a.C.IsConst() {
		return s.Ite(a.A, BV(w, a.B.K), BV(w, a.C.K))
	}
	return s.mk(OZExt, KBV, w, a, nil, nil, 0, "")
}

func (s *Store) SExt(a *Term, w uint8) *Term {
	if w == a.W {
		return a
	}
	if w < a.W {
		return s.Extract(a, w-1, 0)
	}
	if a.IsConst() {
		return BV(w, uint64(sext(a.K, a.W)))
	}
	if a.Op == OZExt && a.A.W < a.W { // sign bit is zero
		return s.ZExt(a.A, w)
	}
	return s.mk(OSExt, KBV, w, a, nil, nil, 0, "")
}

// ---------- floating point ----------

func fkind(k Kind) bool { return k == KF32 || k == KF64 }

func (s *Store) FBin(op Op, a, b *Term) *Term {
	if a.Kind != b.Kind || !fkind(a.Kind) {
		panic("FBin sort mismatch")
	}
	if a.IsConst() && b.IsConst() {
		if a.Kind == KF64 {
			x, y := math.Float64frombits(a.K), math.Float64frombits(b.K)
			switch op {
			case OFAdd:
				return F64(x + y)
			case OFSub:
				return F64(x - y)
			case OFMul:
				return F64(x * y)
			case OFDiv:
				return F64(x / y)
			}
		} else {
			x, y := math.Float32frombits(uint32(a.K)), math.Float32frombits(uint32(b.K))
			switch op {
			case OFAdd:
				return F32(x + y)
			case OFSub:
				return F32(x - y)
			case OFMul:
				return F32(x * y)
			case OFDiv:
				return F32(x / y)
			}
		}
	}
	return s.mk(op, a.Kind, 0, a, b, nil, 0, "")
}

func (s *Store) FNeg(a *Term) *Term {
	if a.IsConst() {
		if a.Kind == KF64 {
			return F64(-math.Float64frombits(a.K))
		}
		return F32(-math.Float32frombits(uint32(a.K)))
	}
	return s.mk(OFNeg, a.Kind, 0, a, nil, nil, 0, "")
}

func (s *Store) FCmp(op Op, a, b *Term) *Term {
	if a.Kind != b.Kind || !fkind(a.Kind) {
		panic("FCmp sort mismatch")
	}
	if a.IsConst() && b.IsConst() {
		x, y := a.F64Val(), b.F64Val()
		switch op {
		case OFLt:
			return Bool(x < y)
		case OFLe:
			return Bool(x <= y)
		case OFEq:
			return Bool(x == y)
		}
	}
	return s.mk(op, KBool, 0, a, b, nil, 0, "")
}

func (s *Store) FIsNaN(a *Term) *Term {
	if a.IsConst() {
		return Bool(math.IsNaN(a.F64Val()))
	}
	return s.mk(OFIsNaN, KBool, 0, a, nil, nil, 0, "")
}

// IntToF converts BV (signed or unsigned) to float kind.
func (s *Store) IntToF(a *Term, signed bool, k Kind) *Term {
	if a.IsConst() {
		var f float64
		if signed {
			f = float64(sext(a.K, a.W))
		} else {
			f = float64(a.K)
		}
		if k == KF32 {
			if signed {
				return F32(float32(sext(a.K, a.W)))
			}
			return F32(float32(a.K))
		}
		return F64(f)
	}
	op := OFFromUBV
	if signed {
		op = OFFromSBV
	}
	return s.mk(op, k, 0, a, nil, nil, 0, "")
}

// FToInt converts float to BV of width w, round toward zero. Out-of-range is
// unspecified in SMT-LIB; callers must add range obligations/assumptions.
func (s *Store) FToInt(a *Term, signed bool, w uint8) *Term {
	if a.IsConst() {
		f := a.F64Val()
		if signed {
			return BV(w, uint64(int64(f)))
		}
		return BV(w, uint64(f))
	}
	op := OFToUBV
	if signed {
		op = OFToSBV
	}
	return s.mk(op, KBV, w, a, nil, nil, 0, "")
}

func (s *Store) FToF(a *Term, k Kind) *Term {
	if a.Kind == k {
		return a
	}
	if a.IsConst() {
		if k == KF32 {
			return F32(float32(math.Float64frombits(a.K)))
		}
		return F64(float64(math.Float32frombits(uint32(a.K))))
	}
	return s.mk(OFToF, k, 0, a, nil, nil, 0, "")
}

// FFromBits reinterprets a BV32/BV64 as float.
func (s *Store) FFromBits(a *Term) *Term {
	k := KF64
	if a.W == 32 {
		k = KF32
	}
	if a.IsConst() {
		return &Term{Op: OConst, Kind: k, K: a.K}
	}
	return s.mk(OFFromBits, k, 0, a, nil, nil, 0, "")
}

// ---------- printing ----------

func sortStr(k Kind, w uint8) string {
	switch k {
	case KBool:
		return "Bool"
	case KBV:
		return fmt.Sprintf("(_ BitVec %d)", w)
	case KF32:
		return "(_ FloatingPoint 8 24)"
	case KF64:
		return "(_ FloatingPoint 11 53)"
	}
	panic("sort")
}

func (t *Term) Sort() string { return sortStr(t.Kind, t.W) }

func constStr(t *Term) string {
	switch t.Kind {
	case KBool:
		if t.K != 0 {
			return "true"
		}
		return "false"
	case KBV:
		if t.W%4 == 0 {
			return fmt.Sprintf("#x%0*x", int(t.W/4), t.K)
		}
		return fmt.Sprintf("#b%0*b", int(t.W), t.K)
	case KF32:
		b := uint32(t.K)
		return fmt.Sprintf("(fp #b%b #b%08b #b%023b)", b>>31, (b>>23)&0xff, b&0x7fffff)
	case KF64:
		b := t.K
		return fmt.Sprintf("(fp #b%b #b%011b #b%052b)", b>>63, (b>>52)&0x7ff, b&0xfffffffffffff)
	}
	panic("const")
}

func symName(n string) string { return "|" + strings.ReplaceAll(n, "|", "_") + "|" }

// ref returns how a term is referenced in SMT text (const literal, var name or t!id).
func ref(t *Term) string {
	switch t.Op {
	case OConst:
		return constStr(t)
	case OVar:
		return symName(t.Name)
	}
	return fmt.Sprintf("t!%d", t.id)
}

// body prints the node's defining expression with children by reference.
func body(t *Term) string {
	switch t.Op {
	case ONot, OBvNot, OBvNeg, OFNeg, OFIsNaN:
		return fmt.Sprintf("(%s %s)", opNames[t.Op], ref(t.A))
	case OIte:
		return fmt.Sprintf("(ite %s %s %s)", ref(t.A), ref(t.B), ref(t.C))
	case OExtract:
		return fmt.Sprintf("((_ extract %d %d) %s)", t.K>>8, t.K&0xff, ref(t.A))
	case OZExt:
		return fmt.Sprintf("((_ zero_extend %d) %s)", t.W-t.A.W, ref(t.A))
	case OSExt:
		return fmt.Sprintf("((_ sign_extend %d) %s)", t.W-t.A.W, ref(t.A))
	case OFAdd, OFSub, OFMul, OFDiv:
		n := map[Op]string{OFAdd: "fp.add", OFSub: "fp.sub", OFMul: "fp.mul", OFDiv: "fp.div"}[t.Op]
		return fmt.Sprintf("(%s RNE %s %s)", n, ref(t.A), ref(t.B))
	case OFFromSBV:
		return fmt.Sprintf("((_ to_fp %s) RNE %s)", fpDims(t.Kind), ref(t.A))
	case OFFromUBV:
		return fmt.Sprintf("((_ to_fp_unsigned %s) RNE %s)", fpDims(t.Kind), ref(t.A))
	case OFToSBV:
		return fmt.Sprintf("((_ fp.to_sbv %d) RTZ %s)", t.W, ref(t.A))
	case OFToUBV:
		return fmt.Sprintf("((_ fp.to_ubv %d) RTZ %s)", t.W, ref(t.A))
	case OFToF:
		return fmt.Sprintf("((_ to_fp %s) RNE %s)", fpDims(t.Kind), ref(t.A))
	case OFFromBits:
		return fmt.Sprintf("((_ to_fp %s) %s)", fpDims(t.Kind), ref(t.A))
	case OUF:
		var sb strings.Builder
		sb.WriteString("(" + symName(t.Name))
		for _, a := range t.Args {
			sb.WriteString(" " + ref(a))
		}
		sb.WriteString(")")
		return sb.String()
	}
	if n, ok := opNames[t.Op]; ok {
		return fmt.Sprintf("(%s %s %s)", n, ref(t.A), ref(t.B))
	}
	panic(fmt.Sprintf("body: op %d", t.Op))
}

func fpDims(k Kind) string {
	if k == KF32 {
		return "8 24"
	}
	return "11 53"
}

func (t *Term) children() []*Term {
	if t.Op == OUF {
		return t.Args
	}
	var c []*Term
	if t.A != nil {
		c = append(c, t.A)
	}
	if t.B != nil {
		c = append(c, t.B)
	}
	if t.C != nil {
		c = append(c, t.C)
	}
	return c
}

// String gives a nested rendering for diagnostics (may be large).
func (t *Term) String() string {
	return t.strDepth(6)
}

func (t *Term) strDepth(d int) string {
	if t.Op == OConst || t.Op == OVar {
		return ref(t)
	}
	if d == 0 {
		return "…"
	}
	var parts []string
	for _, c := range t.children() {
		parts = append(parts, c.strDepth(d-1))
	}
	name := opNames[t.Op]
	switch t.Op {
	case OExtract:
		name = fmt.Sprintf("extract[%d:%d]", t.K>>8, t.K&0xff)
	case OZExt:
		name = fmt.Sprintf("zext%d", t.W)
	case OSExt:
		name = fmt.Sprintf("sext%d", t.W)
	case OUF:
		name = t.Name
	case OFAdd:
		name = "fp.add"
	case OFSub:
		name = "fp.sub"
	case OFMul:
		name = "fp.mul"
	case OFDiv:
		name = "fp.div"
	case OFFromSBV, OFFromUBV:
		name = "to_fp"
	case OFToSBV, OFToUBV:
		name = "fp.to_bv"
	case OFToF:
		name = "fp.cvt"
	case OFFromBits:
		name = "fp.bits"
	}
	return "(" + name + " " + strings.Join(parts, " ") + ")"
}
