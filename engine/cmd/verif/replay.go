package main

import (
	"bytes"
	"context"
	"encoding/json"
	"fmt"
	"os"
	"os/exec"
	"path/filepath"
	"regexp"
	"strings"
	"sync"
	"time"

	"verif/sym"
)

var osImportRe = regexp.MustCompile(`(?m)^(\s*(?:import\s+)?)"os"\s*$`)

var (
	scratchOnce sync.Once
	scratchDir  string
	binCache    = map[string]string{}
)

func scratch() string {
	scratchOnce.Do(func() {
		d, err := os.MkdirTemp("", "verif-replay-")
		if err != nil {
			panic(err)
		}
		scratchDir = d
	})
	return scratchDir
}

func cleanupScratch() {
	if scratchDir != "" {
		os.RemoveAll(scratchDir)
	}
}

func goEnv() []string {
	env := os.Environ()
	out := env[:0:0]
	for _, e := range env {
		if strings.HasPrefix(e, "GOFLAGS=") || strings.HasPrefix(e, "GOTOOLCHAIN=") || strings.HasPrefix(e, "GOPROXY=") || strings.HasPrefix(e, "PATH=") {
			continue
		}
		out = append(out, e)
	}
	out = append(out, "GOFLAGS=", "GOTOOLCHAIN=local", "GOPROXY=off", "PATH=/opt/veriftools/go1.26.8/bin:"+os.Getenv("PATH"))
	return out
}

// buildNative compiles an overlay-only main package that runs one harness natively.
func buildNative(h HarnessDef) (string, error) {
	key := h.Pkg + "." + h.Func
	if h.Race {
		key += ".race"
	}
	if b, ok := binCache[key]; ok {
		return b, nil
	}
	dir := scratch()
	mainDir := "app/verifrt/replaymain_" + strings.ToLower(h.Func)
	mainSrc := fmt.Sprintf(`package main

import (
	"fmt"
	"os"

	"%s/app/verifrt"
	p "%s"
)

func main() {
	h, err := verifrt.NewNative(os.Args[1])
	if err != nil {
		fmt.Println("VERIFRT-ERROR", err)
		os.Exit(3)
	}
	func() {
		defer func() {
			if r := recover(); r != nil {
				fmt.Printf("VERIFRT-PANIC %%v\n", r)
			}
		}()
		p.%s(h)
	}()
	h.Finish()
}
`, sym.RepoModule, fullPkg(h.Pkg), h.Func)
	mainFile := filepath.Join(dir, "main_"+h.Func+".go")
	if err := os.WriteFile(mainFile, []byte(mainSrc), 0o644); err != nil {
		return "", err
	}
	replace := map[string]string{filepath.Join(repoDir, mainDir, "main.go"): mainFile}
	root := filepath.Join(verifDir, "harness")
	filepath.Walk(root, func(p string, fi os.FileInfo, err error) error {
		if err != nil || fi.IsDir() || !strings.HasSuffix(p, ".go") {
			return nil
		}
		rel, _ := filepath.Rel(root, p)
		switch {
		case strings.HasPrefix(rel, "verifrt/"):
			replace[filepath.Join(repoDir, "app", rel)] = p
		case strings.HasPrefix(rel, "repo/"):
			sub := strings.TrimPrefix(rel, "repo/")
			if allow, ok := overlayFiles[filepath.Dir(sub)]; ok && !allow[filepath.Base(sub)] {
				return nil
			}
			replace[filepath.Join(repoDir, sub)] = p
		}
		return nil
	})
	for _, sp := range h.OSSwap {
		pdir := filepath.Join(repoDir, sp)
		ents, _ := os.ReadDir(pdir)
		for _, e := range ents {
			n := e.Name()
			if e.IsDir() || !strings.HasSuffix(n, ".go") || strings.HasSuffix(n, "_test.go") {
				continue
			}
			src, err := os.ReadFile(filepath.Join(pdir, n))
			if err != nil {
				continue
			}
			swapped := osImportRe.ReplaceAll(src, []byte(`${1}os "`+sym.RepoModule+`/app/verifrt/vos"`))
			if bytes.Equal(swapped, src) {
				continue
			}
			f := filepath.Join(dir, "osswap_"+h.Func+"_"+strings.ReplaceAll(sp, "/", "_")+"_"+n)
			os.WriteFile(f, swapped, 0o644)
			replace[filepath.Join(pdir, n)] = f
		}
	}
	ovb, _ := json.Marshal(map[string]any{"Replace": replace})
	ovFile := filepath.Join(dir, "overlay_"+h.Func+".json")
	os.WriteFile(ovFile, ovb, 0o644)
	bin := filepath.Join(dir, "replay_"+h.Func)
	args := []string{"build", "-tags", "verif", "-overlay", ovFile, "-o", bin}
	if h.Race {
		args = append(args, "-race")
	}
	args = append(args, "./"+mainDir)
	cmd := exec.Command("go", args...)
	cmd.Dir = repoDir
	cmd.Env = goEnv()
	out, err := cmd.CombinedOutput()
	if err != nil {
		return "", fmt.Errorf("native build failed: %v\n%s", err, out)
	}
	binCache[key] = bin
	return bin, nil
}

type nativeResult struct {
	Failed     []string `json:"failed"`
	Covered    []string `json:"covered"`
	Observed   []string `json:"observed"`
	TotalAlloc uint64   `json:"total_alloc"`
	Panic      string
	TimedOut   bool
	Output     string
	Exit       int
}

func runNative(bin, replayFile string, timeout time.Duration) nativeResult {
	ctx, cancel := context.WithTimeout(context.Background(), timeout)
	defer cancel()
	if abs, err := filepath.Abs(replayFile); err == nil {
		replayFile = abs
	}
	if abs, err := filepath.Abs(bin); err == nil {
		bin = abs
	}
	cmd := exec.CommandContext(ctx, bin, replayFile)
	// the real code may create files relative to its working directory or HYDRAIDE_ROOT_PATH
	// (settings.New does): keep them in the scratch directory
	if wd := filepath.Join(scratch(), "cwd"); os.MkdirAll(wd, 0o755) == nil {
		cmd.Dir = wd
		cmd.Env = append(os.Environ(), "HYDRAIDE_ROOT_PATH="+wd)
	}
	var buf bytes.Buffer
	cmd.Stdout = &buf
	cmd.Stderr = &buf
	err := cmd.Run()
	var res nativeResult
	res.Output = buf.String()
	if ctx.Err() != nil {
		res.TimedOut = true
	}
	if err != nil {
		if ee, ok := err.(*exec.ExitError); ok {
			res.Exit = ee.ExitCode()
		} else {
			res.Exit = -1
		}
	}
	for _, line := range strings.Split(res.Output, "\n") {
		if strings.HasPrefix(line, "VERIFRT-RESULT ") {
			json.Unmarshal([]byte(line[len("VERIFRT-RESULT "):]), &res)
		}
		if strings.HasPrefix(line, "VERIFRT-PANIC ") {
			res.Panic = line[len("VERIFRT-PANIC "):]
		}
		if strings.HasPrefix(line, "panic: ") || strings.HasPrefix(line, "fatal error: ") {
			if res.Panic == "" {
				res.Panic = line
			}
		}
	}
	return res
}

func tail(s string, n int) string {
	if len(s) > n {
		return "…" + s[len(s)-n:]
	}
	return s
}

// nativeReplay runs the counter-example against the real build and checks that the
// same failure shows.
func nativeReplay(eng *sym.Engine, h HarnessDef, replayFile string, v sym.Violation) (bool, string) {
	bin, err := buildNative(h)
	if err != nil {
		return false, err.Error()
	}
	res := runNative(bin, replayFile, 120*time.Second)
	if strings.Contains(res.Output, "\ngoroutine ") && (strings.Contains(res.Output, "panic: ") || strings.Contains(res.Output, "fatal error: ")) {
		// the real process died (a panic outside any recover, a runtime fatal error): whatever the
		// engine's label for this path was, the native run shows a crash of the server process
		return true, ""
	}
	switch v.Kind {
	case "assert":
		for _, f := range res.Failed {
			if f == v.Label {
				return true, ""
			}
		}
		return false, fmt.Sprintf("native run did not fail assertion %q (failed=%v panic=%q) output: %s", v.Label, res.Failed, res.Panic, tail(res.Output, 400))
	case "panic":
		if res.Panic != "" {
			return true, ""
		}
		return false, "native run did not panic: " + tail(res.Output, 400)
	case "deadlock":
		if res.TimedOut || strings.Contains(res.Output, "all goroutines are asleep") {
			return true, ""
		}
		return false, "native run terminated: " + tail(res.Output, 400)
	case "race":
		if strings.Contains(res.Output, "DATA RACE") || strings.Contains(res.Output, "concurrent map") {
			return true, ""
		}
		return false, "race detector silent: " + tail(res.Output, 400)
	case "alloc":
		for _, f := range res.Failed {
			if f == v.Label {
				return true, ""
			}
		}
		if res.Panic != "" || strings.Contains(res.Output, "out of memory") || strings.Contains(res.Output, "cannot allocate") {
			return true, ""
		}
		for _, o := range v.Observed {
			if strings.HasPrefix(o, "alloc.size=") {
				var n uint64
				fmt.Sscanf(o[len("alloc.size="):], "%d", &n)
				if n > 0 && res.TotalAlloc >= n {
					return true, ""
				}
			}
		}
		return false, "allocation did not show natively: " + tail(res.Output, 400)
	}
	return false, "unknown violation kind " + v.Kind
}

// validateSamples executes sampled non-violating paths natively and compares observations.
type nativeFail struct {
	Label  string
	Inputs []sym.ReplayInput
	Extra  map[string]any
}

func validateSamples(eng *sym.Engine, h HarnessDef, st *sym.ExploreStats, params map[string]int) (int, []string, []nativeFail) {
	if len(st.Samples) == 0 {
		return 0, nil, nil
	}
	bin, err := buildNative(h)
	if err != nil {
		return 0, []string{err.Error()}, nil
	}
	var errs []string
	var fails []nativeFail
	n := 0
	for i, s := range st.Samples {
		if s.Outcome != "ok" || s.HadViolation {
			continue
		}
		rp := map[string]any{"harness": h.Func, "inputs": s.Inputs, "params": params, "extra": s.Extra}
		b, _ := json.Marshal(rp)
		f := filepath.Join(scratch(), fmt.Sprintf("sample_%s_%d.json", h.Func, i))
		os.WriteFile(f, b, 0o644)
		res := runNative(bin, f, 120*time.Second)
		if strings.Contains(res.Panic, "assumption false under replayed inputs") {
			// the path's h.Assume compares an input with bytes the real code produced (real
			// snappy/CRC/gob bytes differ from the model's): this sample has no native
			// counterpart; it is skipped, not counted as validated
			continue
		}
		if res.Panic != "" || res.TimedOut {
			errs = append(errs, fmt.Sprintf("sample %d: native run panicked/timed out (%s) inputs=%v", i, res.Panic, s.Inputs))
			continue
		}
		if len(res.Failed) > 0 {
			for _, l := range res.Failed {
				fails = append(fails, nativeFail{Label: l, Inputs: s.Inputs, Extra: s.Extra})
			}
			continue
		}
		if strings.Join(res.Observed, ";") != strings.Join(s.Observed, ";") {
			errs = append(errs, fmt.Sprintf("sample %d: observations differ: engine=%v native=%v inputs=%v", i, s.Observed, res.Observed, s.Inputs))
			continue
		}
		n++
	}
	return n, errs, fails
}

func cmdReplay(args []string) int {
	if len(args) < 1 {
		fmt.Fprintln(os.Stderr, "usage: verif replay <file.json>")
		return 2
	}
	b, err := os.ReadFile(args[0])
	if err != nil {
		fmt.Fprintln(os.Stderr, err)
		return 2
	}
	var rp struct {
		Property string   `json:"property"`
		Harness  string   `json:"harness"`
		Kind     string   `json:"kind"`
		Label    string   `json:"label"`
		Observed []string `json:"observed"`
	}
	json.Unmarshal(b, &rp)
	for _, c := range Checks {
		if c.ID != rp.Property {
			continue
		}
		for _, h := range c.Harnesses {
			if h.Func == rp.Harness {
				defer cleanupScratch()
				ok, note := nativeReplay(nil, h, args[0], sym.Violation{Kind: rp.Kind, Label: rp.Label, Observed: rp.Observed})
				if ok {
					fmt.Printf("REPRODUCED property=%s harness=%s kind=%s label=%s\n", rp.Property, rp.Harness, rp.Kind, rp.Label)
					return 1
				}
				fmt.Println("not reproduced:", note)
				return 0
			}
		}
	}
	fmt.Fprintln(os.Stderr, "no such harness")
	return 2
}
