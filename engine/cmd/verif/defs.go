package main

const mpPkg = "app/core/hydra/swamp/treasure/msgpackpatch"

const v2pkg = "app/core/hydra/swamp/chronicler/v2"

var Checks = []CheckDef{
	{
		ID: "C06", Title: "Single-client API behaves like a simple key-value model",
		Claim:   "bounded symbolic execution of the real Gateway handlers on top of a real in-memory swamp (treasure, guard, vigil, beacon, safeops, conversion code all real): every sequence of up to maxRequests requests out of Set (create/overwrite flags, one or two items, possibly the same key twice, int64 or string values), Get, Delete, Count, IsKeyExist, IncrementInt64, Uint32SlicePush, Uint32SliceDelete, Uint32SliceSize and ShiftByKeys over two keys with SYMBOLIC values: every response (error vs result, per-item statuses, values, counts, existence flags, set sizes) and the swamp's existence after every request (auto-removal of an emptied swamp) match a reference key-value model written from the proto documentation, and every request returns (deadlock detector)",
		Trusted: "SummonSwamp/IsExistSwamp come from a minimal in-harness server that hands out real in-memory swamps (the real summoning protocol is C18); where the documentation is silent or contradictory the model accepts either behaviour (identical re-Set: UPDATED or NOTHING_CHANGED; Count on a missing swamp: error or IsExist=false; pushing onto a key of another type is outside the claim)",
		Harnesses: []HarnessDef{
			{Pkg: "app/server/gateway", Func: "VerifC06Model", Quick: map[string]int{"maxRequests": 2}, Thorough: map[string]int{"maxRequests": 3}, Covers: []string{"end"}},
		},
		Assumptions: []string{"2 keys, 1 swamp, in-memory swamp type", "IncrementBy != 0 (documented precondition)"},
		Stubs:       []string{"zeus.Zeus / hydra.Hydra = in-harness fakes embedding the interfaces", "sync/time = scheduler and clock models"},
		Outside:     []string{"persistent swamps (C01/C05 cover the storage side)", "typed increments other than int64, conditions and metadata requests", "streaming RPCs"},
	},
	{
		ID: "C18", Title: "At most one live in-memory instance per swamp",
		Claim:   "preemption-bounded exploration of the real hydra.SummonSwamp / getSwamp / closeEventCallbackFunction with real in-memory swamps: (a) 3 concurrent summoners of one name, the first optionally with an already cancelled context; (b) 2 summoners while the current instance is being destroyed by a third thread (they wait in WaitForGracefulClose for the real Destroy to complete): at quiescence at most one constructed-but-not-closed instance exists, every successful summoner holds the instance the server has mapped, and every summoner with a live context succeeds",
		Trusted: "createNewSwamp is redirected to a harness function that builds a real in-memory swamp wired to the hydra's real callbacks and counts live instances (settings/paths/chronicler are C20/C21/C01); sync.Map/Cond/Mutex/atomics/context are scheduler models; busy-wait loops are scheduled fairly (a thread polling the same non-blocking select twice without anybody else running has to give way); in (b) no timer elapses",
		Harnesses: []HarnessDef{
			{Pkg: "app/core/hydra", Func: "VerifC18Summon", Quick: map[string]int{"summoners": 3}, Thorough: map[string]int{"summoners": 3}, Preempt: [2]int{2, 3}, Covers: []string{"end"}, NoReplay: true},
			{Pkg: "app/core/hydra", Func: "VerifC18SummonDestroy", Quick: map[string]int{"summoners": 2, "timersNeverFire": 1}, Thorough: map[string]int{"summoners": 2, "timersNeverFire": 1}, Preempt: [2]int{1, 2}, Covers: []string{"end"}, NoReplay: true},
		},
		Assumptions: []string{"preemption bound 2 (quick) / 3 (thorough); 1 / 2 in the destroy scenario", "fair scheduling of polling loops"},
		Stubs:       []string{"(*hydra).createNewSwamp = harness function returning a real in-memory swamp", "sync/context/time = scheduler and clock models"},
		Outside:     []string{"more than 3 concurrent summoners", "idle-close ticks (C16)", "schedules needing more preemptions"},
	},
	{
		ID: "C27", Title: "Hydrex reverse index stays consistent with core data",
		Claim:   "bounded symbolic execution of the real hydrex Save/Destroy/GetCoreData/GetIndexData against a model of the documented catalog contract of the SDK store: every sequence of up to maxCalls Save (any subset of 2 keys with SYMBOLIC values, so additions, removals and changed values all occur) and Destroy calls over 2 domains, for every map iteration order inside Save: after each call every key lookup returns exactly the domains whose current core data contains the key and every domain read returns exactly its last saved items (keys and values)",
		Trusted: "the Hydraidego store is a harness model of the documented contract (SaveMany upserts by key, DeleteMany removes, Destroy drops, ReadMany iterates all); the SDK's reflect-based model conversion and the server are outside (C22 n/a, C06)",
		Harnesses: []HarnessDef{
			{Pkg: "github.com/hydraide/hydraide/sdk/go/hydraidego/v3/hydrex", Func: "VerifC27Hydrex", Quick: map[string]int{"maxCalls": 2}, Thorough: map[string]int{"maxCalls": 3}, Covers: []string{"end"}},
		},
		Assumptions: []string{"1 index name, 2 domains, 2 keys, 1-byte symbolic values"},
		Stubs:       []string{"hydraidego.Hydraidego = in-harness store model"},
		Outside:     []string{"longer histories", "store failures (errors are ignored by hydrex)"},
	},
	{
		ID: "C21", Title: "Swamp settings resolve deterministically from registered patterns",
		Claim:   "bounded symbolic execution of the real settings package: up to maxSteps register / re-register / deregister steps over overlapping patterns (exact name, realm wildcard, swamp wildcard, non-matching realm, other sanctuary) with SYMBOLIC idle timeout and write interval and either swamp type, in every order, and for EVERY map iteration order of the pattern map during lookup and during reload: the settings resolved for the swamp are those of the most specific registered matching pattern (the default when none matches), and the same again after a restart that reloads the persisted model",
		Trusted: "json.MarshalIndent/Unmarshal are replaced by a deep copy of the settings model (the real JSON round trip runs in the native replay); map iteration order is a decision variable (up to 3 entries: every permutation)",
		Harnesses: []HarnessDef{
			{Pkg: "app/core/settings", Func: "VerifC21Settings", Quick: map[string]int{"maxSteps": 2}, Thorough: map[string]int{"maxSteps": 2}, Covers: []string{"end"}},
		},
		Assumptions: []string{"specificity = exact > realm-specific wildcard > full wildcard; patterns of equal specificity (s/r/* vs s/*/w) are not mixed"},
		Stubs:       []string{"encoding/json.MarshalIndent/Unmarshal = model copy (h.Stub)", "os.* = in-memory FS model"},
		Outside:     []string{"more than maxSteps registrations", "concurrent registration"},
	},
	{
		ID: "C05", Title: "Close and reload preserve every record exactly",
		Claim:   "bounded symbolic execution of the real treasure setters/getters, ConvertToByte and LoadFromByte (the exact pair the chronicler uses to store and reload a record) for every one of the 14 content types with a fully symbolic value (strings/byte arrays/uint32 sets up to 2 elements; zero-like values included) and symbolic created/updated/expiry/created-by metadata: after encode + decode into a fresh record the key, metadata, existence of content, content type and value are identical; plus histories on a PERSISTENT swamp (real swamp, real chronicler V2 and file format on the file-system model, immediate-write and interval mode): sessions of up to maxOps operations (set value+expiry, set the identical value with a new expiry, delete) on two keys with symbolic values, each followed by Close and a re-summon from the file: same existence, value, created and expiry metadata for every key",
		Trusted: "encoding/gob is a contract model written from its documentation (zero-valued fields are not transmitted, also behind non-nil pointers; decoding leaves absent fields untouched); the model is validated against the real gob on every run by native replay of sampled paths and of every counter-example",
		Harnesses: []HarnessDef{
			{Pkg: "app/core/hydra/swamp/treasure", Func: "VerifC05Reload", Quick: map[string]int{}, Thorough: map[string]int{}, Covers: []string{"end"}},
			{Pkg: "app/core/hydra/swamp", Func: "VerifC05History", Quick: map[string]int{"sessions": 2, "maxOps": 1}, Thorough: map[string]int{"sessions": 2, "maxOps": 2}, Covers: []string{"end", "reloaded"}},
		},
		Assumptions: []string{"float values are not NaN (NaN != NaN would make the equality oracle vacuous)", "strings / byte arrays / uint32 sets up to 2 elements"},
		Stubs:       []string{"encoding/gob Encoder/Decoder = contract model (opaque 8-byte token)"},
		Outside:     []string{"histories of several operations before the close (covered per operation by C06)", "the wire conversion in the gateway"},
	},
	{
		ID: "C07", Title: "Ordered index reads return the correctly sorted, ranged page",
		Claim:   "bounded symbolic execution of the real swamp/beacon code on an in-memory swamp: 2-3 records whose sort attribute (key / creation / update / expiry time / int64 value) is symbolic (the solver decides every relative order, ties and zero = attribute absent), the index optionally built before one mutation (insert after the build, update that moves the sort value, delete), then an ordered read in either direction with symbolic offset, limit and time window (each bound absent or symbolic): the page equals filter(attribute present, from <= ts < to) -> sort -> drop offset -> take limit of a reference model, compared tie-insensitively, with no duplicates",
		Trusted: "sort.Slice is an insertion sort calling the real less closure; background goroutines at lowest priority; clock symbolic",
		Harnesses: []HarnessDef{
			{Pkg: "app/core/hydra/swamp", Func: "VerifC07Index", Quick: map[string]int{"maxPage": 2}, Thorough: map[string]int{"maxPage": 3}, Covers: []string{"end"}},
		},
		Assumptions: []string{"attribute values in -2..3, offset/limit in 0..maxPage (relative orders and boundary coincidences are all reachable)", "offset >= 0 (negative offsets are malformed requests, C26)"},
		Stubs:       []string{"sort.Slice/Sort = insertion sort with the real comparison", "time = symbolic clock"},
		Outside:     []string{"more than 3 records", "value indexes other than int64", "gateway-level include/exclude key filters"},
	},
	{
		ID: "C30", Title: "Expiry semantics are consistent across every read and claim path",
		Claim:   "bounded symbolic execution of the real swamp/beacon/treasure code on an in-memory swamp with one record whose expiry e is a fully symbolic UnixNano (zero, negative/pre-epoch, past, future) and a symbolic clock: e is set through Set, patch-meta set, patch-meta slide (from a second symbolic expiry) or patch-meta clear, with the expiry index built before (hot path) or after (cold build) the write; the stored value, IsExpired, membership in the expiry-ordered index, the expired-shift claim and the expired-patch claim all agree with `e != 0 && e < now`",
		Trusted: "time.Now is a symbolic non-decreasing clock (verdicts are compared against the clock readings taken before and after); background goroutines of the swamp (close listener) run at lowest priority; gateway wire conversion and reload through gob are covered by C05/C06 harnesses, not here",
		Harnesses: []HarnessDef{
			{Pkg: "app/core/hydra/swamp", Func: "VerifC30Expiry", Quick: map[string]int{}, Thorough: map[string]int{}, Covers: []string{"end"}},
		},
		Assumptions: []string{"one record", "non-zero instants within the int64 UnixNano range"},
		Stubs:       []string{"time.Now/Unix/UTC/UnixNano = symbolic clock model", "sync primitives = scheduler models"},
		Outside:     []string{"expiry filters of the gateway (EXPIRED_AT comparisons)", "reload from disk"},
	},
	{
		ID: "C24", Title: "Compression round-trips and never hides corruption",
		Claim:   "bounded symbolic execution of the real compressor wrappers (Compress/Decompress and the eight per-algorithm functions, plus io.ReadAll/bytes.Buffer interpreted from source) against a contract model of the four codec libraries: for every algorithm, every input up to maxLen symbolic bytes and every position of a failing library call, a library error is always returned as a non-nil error (never (data, nil) or (nil, nil)); with no failure the round trip is the identity; a damaged frame - whose decoder delivers arbitrary bytes and reports the damage no later than the read that would have returned io.EOF, in reads of arbitrary chunking - yields an error or the original data, i.e. the wrapper always reads the stream to its end",
		Trusted: "the codec libraries themselves are contract stubs (identity codec with a frame marker, nondeterministic failures, end-of-stream integrity check); the real libraries run in the native replay, where every single-byte damage of the real compressed form is tried. Whether real Snappy detects a corruption (its block format has no checksum) and the real round trip of long inputs are outside the claim",
		Harnesses: []HarnessDef{
			{Pkg: "app/core/compressor", Func: "VerifC24Wrapper", Quick: map[string]int{"maxLen": 3}, Thorough: map[string]int{"maxLen": 5}, Covers: []string{"end"}},
		},
		Assumptions: []string{"library contract: a streaming decoder reports a damaged frame no later than the Read that would otherwise return io.EOF; one-shot decoders report it as an error", "inputs up to maxLen bytes"},
		Stubs:       []string{"compress/gzip, pierrec/lz4, golang/snappy, klauspost/zstd constructors, Write/Close/Read/EncodeAll/DecodeAll/Encode/Decode = harness contract stubs (h.Stub)"},
		Outside:     []string{"the real codecs' round trip (first sentence of the property) beyond what the native replay samples", "Snappy corruption detection"},
	},
	{
		ID: "C13", Title: "Structural patch matches its documented semantics",
		Claim:   "bounded symbolic execution of the real msgpackpatch package (and of the msgpack library's decoder/encoder it calls, interpreted from source): (a) a condition on a numeric field against a numeric threshold, for every pair of the 10 numeric type codes + fixints with fully symbolic payloads and every comparator, is met exactly when the mathematical relation holds (NaN equal to nothing, unordered), a class mismatch is an error, a met condition without ops returns the body byte-identically; (b) INC for every (target code, delta code) pair with symbolic payloads keeps the target's type code and class, yields the sum wrapped to that width, keeps field order and the bytes of the untouched field; (c) every op kind that splices a value (SET existing/new/index, APPEND, PREPEND, MERGE, REMOVE_VAL, INC) with ARBITRARY value bytes of length 0..maxValue: a reported success always re-parses, a failure returns no result; (d) every sequence of nOps ops out of 24 (kind, path) combinations - existing, missing, auto-create, negative/out-of-range index, type-mismatch paths - with symbolic leaf values and symbolic MERGE keys on {a:x, l:[y,z], m:{k:w}} yields byte for byte the encoding of a reference document model written from the documented semantics (untouched bytes and field order kept) and fails as a whole exactly when the model says an op fails",
		Trusted: "msgpack decoder/encoder are interpreted from the library source except its unsafe string casts (intrinsics); allocation sizes above 16 elements are one class in the arbitrary-bytes harness (the input is shorter than that, so every such read fails alike)",
		Harnesses: []HarnessDef{
			{Pkg: mpPkg, Func: "VerifC13Compare", Quick: map[string]int{}, Thorough: map[string]int{}, Covers: []string{"end"}},
			{Pkg: mpPkg, Func: "VerifC13Inc", Quick: map[string]int{}, Thorough: map[string]int{}, Covers: []string{"end"}},
			{Pkg: mpPkg, Func: "VerifC13Ops", Quick: map[string]int{"nOps": 2}, Thorough: map[string]int{"nOps": 3}, Covers: []string{"end"}},
			{Pkg: mpPkg, Func: "VerifC13WellFormed", Quick: map[string]int{"maxValue": 3, "allocClassAbove": 16}, Thorough: map[string]int{"maxValue": 4, "allocClassAbove": 16}, Covers: []string{"end"}},
		},
		Assumptions: []string{"bodies of the stated shapes ({a: leaf}, {a: leaf, z: true}, {a: 1, l: [2]})", "value bytes up to maxValue"},
		Stubs:       []string{"msgpack stringToBytes/bytesToString = safe conversions"},
		Outside:     []string{"op sequences longer than nOps", "bodies beyond the stated shapes", "leaf values other than positive fixints in the sequence harness", "string/bytes/bool comparisons (msgpack.Unmarshal uses reflection)"},
	},
	{
		Claim:   "bounded symbolic execution of the real v2 codec, write buffer, file writer and reader: every entry (symbolic opcode/key/payload bytes up to the stated lengths) round-trips through Serialize/Deserialize, every strict prefix of an encoding is rejected, every history of up to nOps WriteEntry/WriteEntries/Flush/Sync/Close+reopen steps with a symbolic block size (the solver decides where flushes fall) and symbolic key bytes (the solver decides aliasing) reloads to the last-writer-wins fold with the stored name and header counters, and keys at the uint16 boundary (0, 65535, 65536, 65537, 70000 bytes) are either rejected or read back identically",
		Trusted: "Snappy = tagged identity, CRC32 = uninterpreted function, os = in-memory FS model (all validated by native replay of sampled paths against the real build); histories longer than nOps are outside the claim",
		ID:      "C01", Title: "Storage log replays to the last-writer-wins state",
		Harnesses: []HarnessDef{
			{Pkg: v2pkg, Func: "VerifC01Codec", Quick: map[string]int{"maxKey": 3, "maxData": 3}, Thorough: map[string]int{"maxKey": 6, "maxData": 6}, Covers: []string{"end"}},
			{Pkg: v2pkg, Func: "VerifC01Boundary", Quick: map[string]int{"blockSize": 64}, Thorough: map[string]int{"blockSize": 64}, Covers: []string{"end"}},
			{Pkg: v2pkg, Func: "VerifC01Fold", Quick: map[string]int{"nOps": 3, "maxKey": 1, "maxData": 1, "opcodes": 3}, Thorough: map[string]int{"nOps": 4, "maxKey": 2, "maxData": 1, "opcodes": 4, "batchOp": 1}, Covers: []string{"end"}},
		},
		Assumptions: []string{"Snappy Encode/Decode is modelled as the identity on encoder output (real codec exercised by native replay)", "CRC32 is an uninterpreted function", "keys/payloads up to the stated lengths; key lengths 0,1,65535,65536,65537,70000 at the format boundary"},
		Stubs:       []string{"snappy.Encode/Decode = tagged identity", "hash/crc32.ChecksumIEEE = UF", "os.* = in-memory FS model", "time.Now = symbolic clock"},
		Outside:     []string{"histories longer than nOps", "payloads >= 4 GiB", "blocks with more than 65535 entries (needs a block size above ~512 KiB)"},
	},
	{
		Claim:   "bounded symbolic execution of the real writer/reader over the engine's file-operation log: for every writer history up to nOps steps (symbolic block size and payloads) and EVERY crash point after the last Sync - loss of any unsynced suffix of operations plus the in-flight write torn at every byte offset that changes the file - the reload succeeds, equals the fold at a flush boundary not older than the last Sync, and a write+sync after recovery is readable together with the recovered records",
		Trusted: "crash model = prefix of the op log + torn next write, Rename atomic, no reordering of unsynced writes; counter-examples are rebuilt natively from the real writer's own operation log (os import swapped for a logging shim in the replay build)",
		ID:      "C02", Title: "Crash at any point never loses durable data or the swamp",
		Harnesses: []HarnessDef{
			{Pkg: v2pkg, Func: "VerifC02Crash", Quick: map[string]int{"nOps": 2}, Thorough: map[string]int{"nOps": 3}, Covers: []string{"end"}, OSSwap: []string{v2pkg}},
		},
		Assumptions: []string{"crash model: every file operation up to a crash point is applied, operations after the last Sync may be lost as a suffix, the in-flight write is torn at a symbolic byte offset; Rename atomic", "no reordering of unsynced writes among themselves"},
		Stubs:       []string{"os.* = in-memory FS model with operation log", "snappy = tagged identity", "crc32 = UF"},
		Outside:     []string{"histories longer than nOps", "sector-level reordering below the sync barrier", "directory entry durability"},
	},
	{
		Claim:   "bounded symbolic execution of all v2 compaction entry points (Compact, CompactIfNeeded, ForceCompact, CompactFromIndex, cleanup+Compact as the chronicler does) on fragmented files from symbolic histories, with every kind of leftover temp file (absent, valid stale file, stale file with torn tail, arbitrary bytes) and every map iteration order: LoadIndex and the name are unchanged and no temp remains; every crash point inside a compaction (temp create/write/rename) reloads to exactly the pre-compaction state",
		Trusted: "map-order nondeterminism explored as a decision (<= 3 live keys); crash model as C02; chronicler-level thresholds and the CLI wrapper reach the same v2 entry points",
		ID:      "C03", Title: "Compaction never changes the stored state",
		Harnesses: []HarnessDef{
			{Pkg: v2pkg, Func: "VerifC03Compact", Quick: map[string]int{"nOps": 3}, Thorough: map[string]int{"nOps": 4}, Covers: []string{"end"}, MapOrder: true},
			{Pkg: v2pkg, Func: "VerifC03Crash", Quick: map[string]int{"nOps": 3}, Thorough: map[string]int{"nOps": 4}, Covers: []string{"end"}, OSSwap: []string{v2pkg}},
		},
		Assumptions: []string{"map iteration order is nondeterministic (every permutation up to 3 live keys explored)", "crash model as C02"},
		Stubs:       []string{"os.* = in-memory FS model", "snappy = tagged identity", "crc32 = UF"},
		Outside:     []string{"chronicler-level triggers (maybeCompactInline thresholds) and the CLI wrapper are covered only through the v2 entry points they call"},
	},
	{
		Claim:   "bounded symbolic execution of the real decoders on (a) arbitrary files: symbolic header fields, symbolic magic, every body length up to maxBody with all bytes symbolic - no panic, termination within the loop bounds, every allocation bounded by max(file size, 65535 entries); (b) writer-produced files with one symbolic mutation (truncate anywhere, overwrite any byte with any other value, overwrite a block-header size field): the load reports the damage or returns exactly the records of a prefix of the original blocks",
		Trusted: "CRC32 = uninterpreted function with the injectivity assumption for compared payloads (2^-32 collisions outside the claim); Snappy decode of foreign bytes = error or arbitrary output",
		ID:      "C04", Title: "Corrupt storage files are detected, never misread or crash the server",
		Harnesses: []HarnessDef{
			{Pkg: v2pkg, Func: "VerifC04Arbitrary", Quick: map[string]int{"maxBody": 24, "allocBound": 65535}, Thorough: map[string]int{"maxBody": 30, "allocBound": 65535}, Covers: []string{"end"}, NoReplay: true},
			{Pkg: v2pkg, Func: "VerifC04Damaged", Quick: map[string]int{"nEntries": 2, "crcInjective": 1, "allocBound": 65535}, Thorough: map[string]int{"nEntries": 3, "crcInjective": 1, "allocBound": 65535}, Covers: []string{"end"}},
		},
		Assumptions: []string{"CRC-INJ: different block payloads have different CRC32 (collisions are outside the claim)", "Snappy decode of bytes not produced by the encoder: error or arbitrary bytes"},
		Stubs:       []string{"os.* = in-memory FS model", "snappy = tagged identity / nondeterministic on foreign input", "crc32 = UF with injectivity assumption"},
		Outside:     []string{"files larger than 64+2+maxBody bytes", "adversarial CRC collisions", "Snappy's own allocation from its length prefix"},
	},
	{
		Claim:   "bounded symbolic execution of the real writer with the disk becoming full at every byte offset up to maxRoom behind a durable entry (short write + ENOSPC from the FS model), the fault clearing, and later writes: the reload succeeds, the durable entry is intact, every entry acknowledged before or after the fault is present",
		Trusted: "fault model = file cannot grow beyond a limit (natively replayed with RLIMIT_FSIZE); Sync/Rename failures and chronicler-level error handling are outside",
		ID:      "C25", Title: "Disk write failures never corrupt durable data",
		Harnesses: []HarnessDef{
			{Pkg: v2pkg, Func: "VerifC25DiskFull", Quick: map[string]int{"maxRoom": 24, "blockSize": 16}, Thorough: map[string]int{"maxRoom": 40, "blockSize": 16}, Covers: []string{"end"}},
		},
		Assumptions: []string{"fault model: the file cannot grow beyond a limit (short write + ENOSPC), the fault clears later"},
		Stubs:       []string{"os.* = in-memory FS model with size limit", "snappy = tagged identity", "crc32 = UF"},
		Outside:     []string{"Sync/Rename failures", "double faults", "chronicler-level error handling (errors are logged and the treasure skipped)"},
	},
	{
		Claim:   "bounded symbolic execution of writer + ReadSwampName for symbolic names up to maxName bytes in the V3 layout, after a second append session, and in the legacy V2 layout built with the real header/entry encoders (name in a metadata entry): the fast lookup returns exactly the written name",
		Trusted: "explorer directory walk/worker pool is outside; names above 65535 bytes are outside",
		ID:      "C29", Title: "Fast swamp-name discovery agrees with the stored name",
		Harnesses: []HarnessDef{
			{Pkg: v2pkg, Func: "VerifC29Name", Quick: map[string]int{"maxName": 3}, Thorough: map[string]int{"maxName": 5}, Covers: []string{"end"}},
		},
		Assumptions: []string{"names up to maxName bytes (arbitrary bytes)"},
		Stubs:       []string{"os.* = in-memory FS model", "snappy = tagged identity", "crc32 = UF"},
		Outside:     []string{"explorer directory walk / worker pool", "names longer than 65535 bytes"},
	},
	{
		Claim:   "bounded symbolic execution of the server and SDK name packages: island number in 1..N for every 16-bit N (hash = uninterpreted function), SDK == server, a second query with a different N equals a fresh object's answer, hashed directory path computed without panic for every depth/maxFoldersPerLevel/hash digit count in range, canonical name injective and Load(Get()) the identity over symbolic part bytes (empty parts included)",
		Trusted: "xxhash = uninterpreted function (collisions outside the claim); fmt %x modelled; parts up to partLen bytes",
		ID:      "C20", Title: "Swamp addressing is deterministic, in range and SDK/server-consistent",
		Harnesses: []HarnessDef{
			{Pkg: "app/name", Func: "VerifC20Island", Quick: map[string]int{"partLen": 2}, Thorough: map[string]int{"partLen": 3}, Covers: []string{"end"}},
			{Pkg: "app/name", Func: "VerifC20Path", Quick: map[string]int{"maxDepth": 4}, Thorough: map[string]int{"maxDepth": 9}, Covers: []string{"end"}},
			{Pkg: "app/name", Func: "VerifC20InjectEmpty", Quick: map[string]int{"partLen": 1}, Thorough: map[string]int{"partLen": 2}, Covers: []string{"end"}},
			{Pkg: "app/name", Func: "VerifC20Inject", Quick: map[string]int{"partLen": 2}, Thorough: map[string]int{"partLen": 3}, Covers: []string{"end"}},
		},
		Assumptions: []string{"xxhash.Sum64 is an uninterpreted function per input length (collisions are outside the claim)", "N >= 1", "path hashes >= 2^48 (13..16 hex digits)", "maxFoldersPerLevel in 1..2^20"},
		Stubs:       []string{"github.com/cespare/xxhash/v2.Sum64/Sum64String = UF"},
		Outside:     []string{"hash collisions", "names longer than the stated part length", "island counts above 65535 on the server API (uint16)"},
	},
	{
		Claim:   "one-step inductive obligation over ANY guard state of the shape histories produce (queue of consecutive ids ending at the counter, all symbolic): acquire (waiting/non-waiting) and release with an arbitrary id keep the shape, hand out only fresh ids (counter monotonic), release of a non-head id is a no-op; plus preemption-bounded schedules of 3 threads with a duplicate (stale) release: one holder at a time, nobody blocked forever",
		Trusted: "sync.Cond/RWMutex/atomics are scheduler models (Broadcast wakes only parked waiters); preemption bound in evidence.bounds",
		ID:      "C15", Title: "Record guard gives exclusive, arrival-ordered access",
		Harnesses: []HarnessDef{
			{Pkg: "app/core/hydra/swamp/treasure/guard", Func: "VerifC15Step", Quick: map[string]int{"maxQueue": 4}, Thorough: map[string]int{"maxQueue": 6}, Covers: []string{"end"}},
			{Pkg: "app/core/hydra/swamp/treasure/guard", Func: "VerifC15Sched", Quick: map[string]int{"threads": 3}, Thorough: map[string]int{"threads": 3}, Preempt: [2]int{2, 3}, Covers: []string{"end"}, NoReplay: true},
		},
		Assumptions: []string{"inductive step: pre-states are the queue shapes every history produces (consecutive ids ending at the counter)", "sync.Cond.Signal/Broadcast wake only waiters already enqueued", "preemption-bounded schedules (P=2 quick, 3 thorough), 3 threads"},
		Stubs:       []string{"sync.Mutex/RWMutex/Cond, sync/atomic = scheduler models"},
		Outside:     []string{"more than 3 concurrent holders/waiters in the scheduled harness", "schedules needing more preemptions than the bound"},
	},
	{
		Claim:   "every interleaving (within the preemption bound) of a waiter in WaitForActiveVigilsClosed with up to maxInFlight Begin/CeaseVigil operations on the real vigil: no reachable state has the waiter parked with no operation left to wake it (deadlock detector), and the waiter only returns at count zero; plus 3 concurrent summoners of one swamp name while the server is marked as shutting down at an arbitrary point: every summoner returns (instance or error), nobody stays parked on the per-name summoning slot",
		Trusted: "sync.Cond model: Broadcast moves only waiters that are already parked; Destroy/WaitForGracefulClose chains at swamp level are outside this check",
		ID:      "C17", Title: "Lifecycle waits always terminate",
		Harnesses: []HarnessDef{
			{Pkg: "app/core/hydra", Func: "VerifC17SummonShutdown", Quick: map[string]int{"summoners": 3}, Thorough: map[string]int{"summoners": 3}, Preempt: [2]int{2, 3}, Covers: []string{"end"}, NoReplay: true},
			{Pkg: "app/core/hydra/swamp/vigil", Func: "VerifC17Vigil", Quick: map[string]int{"maxInFlight": 2}, Thorough: map[string]int{"maxInFlight": 3}, Preempt: [2]int{2, 3}, Covers: []string{"end"}, NoReplay: true},
		},
		Assumptions: []string{"Cond.Broadcast wakes only waiters already enqueued (as sync.Cond does)", "preemption-bounded schedules"},
		Stubs:       []string{"sync.RWMutex/Cond, sync/atomic = scheduler models"},
		Outside:     []string{"more in-flight operations than the bound", "Destroy/WaitForGracefulClose chains (swamp level)"},
	},
	{
		Claim:   "inductive step over arbitrary lock-queue states (symbolic ids, <= maxQueue callers) for enqueue/remove, plus preemption-bounded exploration of the real Lock/Unlock with TTL timers firing at arbitrary points, cancellations, stale and foreign unlocks: at most one holder, FIFO grant order, foreign unlock has no effect, every live waiter eventually finishes",
		Trusted: "TTL timers and context deadlines are environment events that may fire at any scheduling point; channels/sync.Map/mutexes are scheduler models; preemption bound and caller count in evidence.bounds",
		ID:      "C14", Title: "Business lock: exclusive, FIFO, TTL-released, deadlock-free",
		Harnesses: []HarnessDef{
			{Pkg: "app/core/hydra/lock", Func: "VerifC14Queue", Quick: map[string]int{"maxQueue": 4}, Thorough: map[string]int{"maxQueue": 5}, Covers: []string{"end"}},
			{Pkg: "app/core/hydra/lock", Func: "VerifC14Lock", Quick: map[string]int{"callers": 2}, Thorough: map[string]int{"callers": 2}, Preempt: [2]int{1, 2}, Covers: []string{"end"}, NoReplay: true},
			{Pkg: "app/core/hydra/lock", Func: "VerifC14Handover", Quick: map[string]int{"timersNeverFire": 1}, Thorough: map[string]int{"timersNeverFire": 1}, Preempt: [2]int{1, 2}, Covers: []string{"end"}, NoReplay: true},
		},
		Assumptions: []string{"TTL timers fire at an arbitrary scheduling point after creation (covers every duration)", "uuid.NewString returns fresh distinct ids", "preemption bound 1 (quick) / 2 (thorough)"},
		Stubs:       []string{"time.NewTimer = environment event", "context interpreted from source", "google/uuid.NewString = fresh tokens", "sync.Map/Mutex, channels = scheduler models"},
		Outside:     []string{"more than 3 callers", "gateway-level TTL floor arithmetic"},
	},
	{
		Claim:   "preemption-bounded exploration of lock/unlock/TTL-expiry sequences over up to `keys` keys on the real lock package; at quiescence with no holder and no waiter the per-key queue map must be empty",
		Trusted: "sync.Map = association-list model; TTL timers are environment events",
		ID:      "C28", Title: "Lock and guard bookkeeping does not grow without bound",
		Harnesses: []HarnessDef{
			{Pkg: "app/core/hydra/lock", Func: "VerifC28Lock", Quick: map[string]int{"keys": 2}, Thorough: map[string]int{"keys": 3}, Preempt: [2]int{1, 2}, NoReplay: true},
		},
		Assumptions: []string{"TTL timers fire at an arbitrary scheduling point"},
		Stubs:       []string{"time.NewTimer = environment event", "sync.Map = association list model"},
		Outside:     []string{"guard bookkeeping inside treasures (released with the treasure)"},
	},
}
