package main

var Checks = []CheckDef{
	{
		ID: "C20", Title: "Swamp addressing is deterministic, in range and SDK/server-consistent",
		Harnesses: []HarnessDef{
			{Pkg: "app/name", Func: "VerifC20Island", Quick: map[string]int{"partLen": 2}, Thorough: map[string]int{"partLen": 3}, Covers: []string{"end"}},
			{Pkg: "app/name", Func: "VerifC20Path", Quick: map[string]int{"maxDepth": 4}, Thorough: map[string]int{"maxDepth": 9}, Covers: []string{"end"}},
			{Pkg: "app/name", Func: "VerifC20Inject", Quick: map[string]int{"partLen": 2}, Thorough: map[string]int{"partLen": 3}, Covers: []string{"end"}},
		},
		Assumptions: []string{"xxhash.Sum64 is an uninterpreted function per input length (collisions are outside the claim)", "N >= 1", "path hashes >= 2^48 (13..16 hex digits)", "maxFoldersPerLevel in 1..2^20"},
		Stubs:       []string{"github.com/cespare/xxhash/v2.Sum64/Sum64String = UF"},
		Outside:     []string{"hash collisions", "names longer than the stated part length", "island counts above 65535 on the server API (uint16)"},
	},
}
