package main

var Checks = []CheckDef{
	{
		ID: "C20", Title: "Swamp addressing is deterministic, in range and SDK/server-consistent",
		Harnesses: []HarnessDef{
			{Pkg: "app/name", Func: "VerifC20Island", Quick: map[string]int{"partLen": 2}, Thorough: map[string]int{"partLen": 3}, Covers: []string{"end"}},
			{Pkg: "app/name", Func: "VerifC20Path", Quick: map[string]int{"maxDepth": 4}, Thorough: map[string]int{"maxDepth": 9}, Covers: []string{"end"}},
			{Pkg: "app/name", Func: "VerifC20Inject", Quick: map[string]int{"partLen": 2}, Thorough: map[string]int{"partLen": 3}, Covers: []string{"end"}},
		},
		Assumptions: []string{"xxhash.Sum64 is an uninterpreted function per input length (collisions are outside the claim)", "N >= 1", "path hashes >= 2^48 (13..16 hex digits)", "maxFoldersPerLevel in 1..2^20"},
		Stubs:       []string{"github.com/cespare/xxhash/v2.Sum64/Sum64String = UF"},
		Outside:     []string{"hash collisions", "names longer than the stated part length", "island counts above 65535 on the server API (uint16)"},
	},
	{
		ID: "C15", Title: "Record guard gives exclusive, arrival-ordered access",
		Harnesses: []HarnessDef{
			{Pkg: "app/core/hydra/swamp/treasure/guard", Func: "VerifC15Step", Quick: map[string]int{"maxQueue": 4}, Thorough: map[string]int{"maxQueue": 6}, Covers: []string{"end"}},
			{Pkg: "app/core/hydra/swamp/treasure/guard", Func: "VerifC15Sched", Quick: map[string]int{"threads": 3}, Thorough: map[string]int{"threads": 3}, Preempt: [2]int{2, 3}, Covers: []string{"end"}, NoReplay: true},
		},
		Assumptions: []string{"inductive step: pre-states are the queue shapes every history produces (consecutive ids ending at the counter)", "sync.Cond.Signal/Broadcast wake only waiters already enqueued", "preemption-bounded schedules (P=2 quick, 3 thorough), 3 threads"},
		Stubs:       []string{"sync.Mutex/RWMutex/Cond, sync/atomic = scheduler models"},
		Outside:     []string{"more than 3 concurrent holders/waiters in the scheduled harness", "schedules needing more preemptions than the bound"},
	},
	{
		ID: "C17", Title: "Lifecycle waits always terminate",
		Harnesses: []HarnessDef{
			{Pkg: "app/core/hydra/swamp/vigil", Func: "VerifC17Vigil", Quick: map[string]int{"maxInFlight": 2}, Thorough: map[string]int{"maxInFlight": 3}, Preempt: [2]int{2, 3}, Covers: []string{"end"}, NoReplay: true},
		},
		Assumptions: []string{"Cond.Broadcast wakes only waiters already enqueued (as sync.Cond does)", "preemption-bounded schedules"},
		Stubs:       []string{"sync.RWMutex/Cond, sync/atomic = scheduler models"},
		Outside:     []string{"more in-flight operations than the bound", "Destroy/WaitForGracefulClose chains (swamp level)"},
	},
	{
		ID: "C14", Title: "Business lock: exclusive, FIFO, TTL-released, deadlock-free",
		Harnesses: []HarnessDef{
			{Pkg: "app/core/hydra/lock", Func: "VerifC14Queue", Quick: map[string]int{"maxQueue": 4}, Thorough: map[string]int{"maxQueue": 5}, Covers: []string{"end"}},
			{Pkg: "app/core/hydra/lock", Func: "VerifC14Lock", Quick: map[string]int{"callers": 2}, Thorough: map[string]int{"callers": 2}, Preempt: [2]int{1, 2}, Covers: []string{"end"}, NoReplay: true},
			{Pkg: "app/core/hydra/lock", Func: "VerifC14Handover", Quick: map[string]int{"timersNeverFire": 1}, Thorough: map[string]int{"timersNeverFire": 1}, Preempt: [2]int{1, 2}, Covers: []string{"end"}, NoReplay: true},
		},
		Assumptions: []string{"TTL timers fire at an arbitrary scheduling point after creation (covers every duration)", "uuid.NewString returns fresh distinct ids", "preemption bound 1 (quick) / 2 (thorough)"},
		Stubs:       []string{"time.NewTimer = environment event", "context interpreted from source", "google/uuid.NewString = fresh tokens", "sync.Map/Mutex, channels = scheduler models"},
		Outside:     []string{"more than 3 callers", "gateway-level TTL floor arithmetic"},
	},
	{
		ID: "C28", Title: "Lock and guard bookkeeping does not grow without bound",
		Harnesses: []HarnessDef{
			{Pkg: "app/core/hydra/lock", Func: "VerifC28Lock", Quick: map[string]int{"keys": 2}, Thorough: map[string]int{"keys": 3}, Preempt: [2]int{1, 2}, NoReplay: true},
		},
		Assumptions: []string{"TTL timers fire at an arbitrary scheduling point"},
		Stubs:       []string{"time.NewTimer = environment event", "sync.Map = association list model"},
		Outside:     []string{"guard bookkeeping inside treasures (released with the treasure)"},
	},
}
