package main

import (
	"encoding/json"
	"flag"
	"fmt"
	"os"
	"path/filepath"
	"runtime"
	"sort"
	"strconv"
	"strings"
	"time"

	"verif/sym"
)

var (
	verifDir = envOr("VERIF_DIR", "/verif")
	repoDir  = envOr("VERIF_REPO", "/repo")
)

func envOr(k, d string) string {
	if v := os.Getenv(k); v != "" {
		return v
	}
	return d
}

// buildOverlay maps harness sources into the repository tree (nothing is written under /repo).
// overlayFiles, when non-nil, restricts the harness files injected per harness directory
// (relative to harness/repo) to the listed base names: a check then does not depend on harness
// files of other checks compiling against the current tree.
var overlayFiles map[string]map[string]bool

func buildOverlay() (map[string][]byte, error) {
	ov := map[string][]byte{}
	root := filepath.Join(verifDir, "harness")
	err := filepath.Walk(root, func(p string, fi os.FileInfo, err error) error {
		if err != nil || fi.IsDir() || !strings.HasSuffix(p, ".go") {
			return err
		}
		rel, _ := filepath.Rel(root, p)
		b, err := os.ReadFile(p)
		if err != nil {
			return err
		}
		switch {
		case strings.HasPrefix(rel, "verifrt/"):
			ov[filepath.Join(repoDir, "app", rel)] = b
		case strings.HasPrefix(rel, "repo/"):
			sub := strings.TrimPrefix(rel, "repo/")
			if allow, ok := overlayFiles[filepath.Dir(sub)]; ok && !allow[filepath.Base(sub)] {
				return nil
			}
			ov[filepath.Join(repoDir, sub)] = b
		}
		return nil
	})
	return ov, err
}

func main() {
	// the go command used for loading and native replay is go1.26.8 (GOTOOLCHAIN=local)
	os.Setenv("PATH", "/opt/veriftools/go1.26.8/bin:"+os.Getenv("PATH"))
	os.Setenv("GOTOOLCHAIN", "local")
	os.Setenv("GOPROXY", "off")
	os.Setenv("GOFLAGS", "")
	if len(os.Args) < 2 {
		fmt.Fprintln(os.Stderr, "usage: verif check <id> [--tier quick|thorough] | run --pkg P --func F | list | replay <file>")
		os.Exit(2)
	}
	switch os.Args[1] {
	case "run":
		os.Exit(cmdRun(os.Args[2:]))
	case "check":
		os.Exit(cmdCheck(os.Args[2:]))
	case "list":
		if len(os.Args) > 2 && os.Args[2] == "--json" {
			var out []map[string]any
			for _, c := range Checks {
				var hs []string
				for _, h := range c.Harnesses {
					hs = append(hs, h.Func)
				}
				out = append(out, map[string]any{"property_id": c.ID, "title": c.Title, "text": c.Claim, "note": c.Trusted, "harnesses": hs,
					"assumptions": c.Assumptions, "stubs": c.Stubs, "outside": c.Outside})
			}
			b, _ := json.MarshalIndent(out, "", " ")
			fmt.Println(string(b))
			break
		}
		for _, c := range Checks {
			fmt.Println(c.ID, c.Title)
		}
	case "replay":
		os.Exit(cmdReplay(os.Args[2:]))
	default:
		fmt.Fprintln(os.Stderr, "unknown command", os.Args[1])
		os.Exit(2)
	}
}

type paramFlags map[string]int

func (p paramFlags) String() string { return fmt.Sprint(map[string]int(p)) }
func (p paramFlags) Set(s string) error {
	k, v, ok := strings.Cut(s, "=")
	if !ok {
		return fmt.Errorf("want k=v")
	}
	n, err := strconv.Atoi(v)
	if err != nil {
		return err
	}
	p[k] = n
	return nil
}

func cmdRun(args []string) int {
	fs := flag.NewFlagSet("run", flag.ExitOnError)
	pkg := fs.String("pkg", "", "import path (relative to module allowed)")
	fn := fs.String("func", "", "harness function")
	workers := fs.Int("workers", runtime.NumCPU(), "workers")
	maxPaths := fs.Int("maxpaths", 0, "path limit")
	timeout := fs.Int("timeout", 10000, "solver timeout ms")
	race := fs.Bool("race", false, "race detector")
	preempt := fs.Int("preempt", 2, "preemption bound")
	maporder := fs.Bool("maporder", false, "map order nondeterminism")
	verbose := fs.Bool("v", false, "verbose")
	params := paramFlags{}
	fs.Var(params, "param", "k=v harness parameter")
	fs.Parse(args)
	full := *pkg
	if !strings.HasPrefix(full, "github.com/") {
		full = sym.RepoModule + "/" + strings.TrimPrefix(full, "./")
	}
	ov, err := buildOverlay()
	if err != nil {
		fmt.Fprintln(os.Stderr, err)
		return 2
	}
	eng, err := sym.Load(repoDir, []string{full}, ov, "verif")
	if err != nil {
		fmt.Fprintln(os.Stderr, "load:", err)
		return 2
	}
	fmt.Fprintf(os.Stderr, "loaded in %v\n", eng.LoadTime)
	cfg := sym.DefaultConfig()
	cfg.Race = *race
	cfg.Preemptions = *preempt
	cfg.MapOrderNondet = *maporder
	for k, v := range params {
		cfg.Params[k] = v
	}
	st, err := eng.Explore(sym.Harness{Pkg: full, Func: *fn}, cfg, sym.ExploreOpts{Workers: *workers, MaxPaths: *maxPaths, SolverTimeoutMs: *timeout, Samples: 3})
	if err != nil {
		fmt.Fprintln(os.Stderr, err)
		return 2
	}
	printStats(st, *verbose)
	return 0
}

func printStats(st *sym.ExploreStats, verbose bool) {
	fmt.Printf("harness %s: paths=%d outcomes=%v decisions=%d %v steps=%d\n", st.Harness, st.Paths, st.Outcomes, st.Decisions, st.DecByKind, st.Steps)
	fmt.Printf("  queries=%d sat=%d unsat=%d unknown=%d solver=%.2fs wall=%.2fs inconclusive=%d limit=%v\n", st.Queries, st.Sat, st.Unsat, st.Unknown, st.SolverTime.Seconds(), st.Wall.Seconds(), st.Inconclusive, st.PathLimitHit)
	fmt.Printf("  covers=%v asserts=%v\n", keys(st.Covers), st.Asserts)
	for _, m := range st.Truncated {
		fmt.Println("  TRUNCATED:", m)
	}
	for _, m := range st.Unsupported {
		fmt.Println("  UNSUPPORTED:", m)
	}
	for _, m := range st.Internal {
		fmt.Println("  INTERNAL:", m)
	}
	for _, m := range st.SolverErrs {
		fmt.Println("  SOLVER-ERR:", m)
	}
	for k := range st.UninitReads {
		fmt.Printf("  UNINIT-GLOBAL-TOUCHED %s\n", k)
	}
	for k, v := range st.InitSkips {
		fmt.Printf("  INIT-PARTIAL %s: %s\n", k, v)
	}
	seen := map[string]int{}
	for _, v := range st.Viols {
		k := v.Kind + "|" + v.Label + "|" + v.Known
		seen[k]++
		if seen[k] > 2 {
			continue
		}
		b, _ := json.Marshal(v.Inputs)
		fmt.Printf("  VIOL kind=%s label=%s known=%q msg=%s\n    inputs=%s\n    observed=%v\n", v.Kind, v.Label, v.Known, v.Msg, b, v.Observed)
		if verbose {
			fmt.Printf("    stack=%v\n    schedule=%v\n    extra=%v\n", v.Stack, v.Schedule, v.Extra)
		}
	}
	for k, n := range seen {
		fmt.Printf("  viol-class %s ×%d\n", k, n)
	}
	if verbose {
		repo, lib, intr := st.FuncList()
		fmt.Printf("  functions encoded (%d repo, %d library interpreted, %d intrinsics)\n", len(repo), lib, len(intr))
		for _, f := range repo {
			fmt.Println("    ", f)
		}
		for _, s := range st.Samples {
			b, _ := json.Marshal(s)
			fmt.Println("  sample:", string(b))
		}
	}
}

func keys(m map[string]bool) []string {
	var ks []string
	for k := range m {
		ks = append(ks, k)
	}
	sort.Strings(ks)
	return ks
}

var _ = time.Now
