package main

import (
	"encoding/json"
	"flag"
	"fmt"
	"os"
	"os/exec"
	"path/filepath"
	"runtime"
	"sort"
	"strconv"
	"strings"
	"time"

	"verif/sym"
)

// HarnessDef is one harness entry point of a check with its per-tier configuration.
type HarnessDef struct {
	Pkg       string // import path relative to the repo module (or full path)
	Func      string
	Quick     map[string]int // harness parameters (h.Param) in the quick tier; nil = harness not run in quick
	Thorough  map[string]int
	Race      bool
	MapOrder  bool
	Preempt   [2]int   // quick, thorough preemption bounds (0 => default 2/3)
	Covers    []string // labels that must be covered (vacuity guard)
	MaxSteps  int
	LoopBound int
	MaxPaths  [2]int // optional safety cap per tier (hit => reduced bound reported as failure)
	NoReplay  bool   // harness cannot be replayed natively (concurrent schedules, model-only environment)
	SolverMs  [2]int
	Files     []string // harness source files (base names) this harness needs in its package dir; empty = all files of the dir
	Quiet     []string // import-path prefixes: no preemption inside these packages (schedule reduction, stated in the evidence)
	Samples   [2]int   // native validation: number of passing paths re-run natively per tier (0 = default 3 / 10)
	OSSwap    []string // packages whose "os" import is pointed at verifrt/vos in the native replay build (real op log for crash images)
}

type CheckDef struct {
	ID          string
	Title       string
	Harnesses   []HarnessDef
	Assumptions []string
	Stubs       []string
	Outside     []string
	Claim       string // what the solver decides (MANIFEST level_claimed.text)
	Trusted     string // MANIFEST level_note
}

type KnownFinding struct {
	Status      string `json:"status"`
	Property    string `json:"property"`
	ID          string `json:"id"`
	Harness     string `json:"harness,omitempty"`
	Label       string `json:"label,omitempty"`
	Region      string `json:"region,omitempty"`
	Description string `json:"description"`
}

type KnownFile struct {
	Findings []KnownFinding `json:"findings"`
	Fixed    []string       `json:"fixed"`
}

func loadKnown() KnownFile {
	var kf KnownFile
	b, err := os.ReadFile(filepath.Join(verifDir, "known_findings.json"))
	if err == nil {
		json.Unmarshal(b, &kf)
	}
	return kf
}

func fullPkg(p string) string {
	if strings.HasPrefix(p, "github.com/") {
		return p
	}
	return sym.RepoModule + "/" + p
}

func cmdCheck(args []string) int {
	if len(args) < 1 {
		fmt.Fprintln(os.Stderr, "usage: verif check <id> [--tier quick|thorough]")
		return 2
	}
	id := args[0]
	fs := flag.NewFlagSet("check", flag.ExitOnError)
	tier := fs.String("tier", envOr("VERIF_TIER", "quick"), "quick|thorough")
	workers := fs.Int("workers", runtime.NumCPU(), "workers")
	verbose := fs.Bool("v", false, "verbose")
	only := fs.String("only", "", "run only this harness (development)")
	budget := fs.Int("budget", 600, "wall-clock budget per harness in seconds (x6 in the thorough tier); exceeding it fails the check as incomplete")
	noReplay := fs.Bool("noreplay", false, "skip native replay/validation (development)")
	fs.Parse(args[1:])
	seed, _ := strconv.ParseInt(envOr("VERIF_SEED", "1"), 10, 64)
	var def *CheckDef
	for i := range Checks {
		if Checks[i].ID == id {
			def = &Checks[i]
		}
	}
	if def == nil {
		fmt.Fprintln(os.Stderr, "unknown check", id)
		return 2
	}
	defer cleanupScratch()
	t0 := time.Now()
	ti := 0
	if *tier == "thorough" {
		ti = 1
	}
	overlayFiles = map[string]map[string]bool{}
	for _, h := range def.Harnesses {
		dir := strings.TrimPrefix(fullPkg(h.Pkg), sym.RepoModule+"/")
		dir = strings.Replace(dir, "sdk/go/hydraidego/v3", "sdk/go/hydraidego", 1)
		if len(h.Files) == 0 {
			delete(overlayFiles, dir)
			overlayFiles[dir] = nil
			continue
		}
		if m, ok := overlayFiles[dir]; ok && m == nil {
			continue
		}
		if overlayFiles[dir] == nil {
			overlayFiles[dir] = map[string]bool{}
		}
		for _, f := range h.Files {
			overlayFiles[dir][f] = true
		}
	}
	for d, m := range overlayFiles {
		if m == nil {
			delete(overlayFiles, d)
		}
	}
	ov, err := buildOverlay()
	if err != nil {
		fmt.Fprintln(os.Stderr, err)
		return 2
	}
	pkgSet := map[string]bool{}
	var pats []string
	for _, h := range def.Harnesses {
		p := fullPkg(h.Pkg)
		if !pkgSet[p] {
			pkgSet[p] = true
			pats = append(pats, p)
		}
	}
	eng, err := sym.Load(repoDir, pats, ov, "verif")
	if err != nil {
		fmt.Println("BROKEN: cannot load /repo with harness overlay:", err)
		writeEvidence(def, *tier, seed, nil, time.Since(t0), 0, []string{"load failed: " + err.Error()}, 0)
		return 2
	}
	known := loadKnown()
	knownIDs := map[string]KnownFinding{}
	for _, k := range known.Findings {
		if k.Status == "known" && k.Property == id {
			knownIDs[k.ID] = k
		}
	}
	var all []*sym.ExploreStats
	var broken []string
	exit := 0
	nviol := 0
	knownSeen := map[string]bool{}
	validated := 0
	replayDir := filepath.Join(verifDir, "evidence", "replay")
	os.MkdirAll(replayDir, 0o755)
	// remove stale replay files of this check
	if old, _ := filepath.Glob(filepath.Join(replayDir, id+"-*.json")); len(old) > 0 {
		for _, f := range old {
			os.Remove(f)
		}
	}
	for _, h := range def.Harnesses {
		if *only != "" && h.Func != *only {
			continue
		}
		params := h.Quick
		if ti == 1 {
			params = h.Thorough
			if params == nil {
				params = h.Quick
			}
		}
		if params == nil {
			continue
		}
		cfg := sym.DefaultConfig()
		cfg.Race = h.Race
		cfg.MapOrderNondet = h.MapOrder
		for _, q := range h.Quiet {
			cfg.QuietPkgs = append(cfg.QuietPkgs, fullPkg(q))
		}
		cfg.Preemptions = 2 + ti
		if h.Preempt[ti] > 0 {
			cfg.Preemptions = h.Preempt[ti]
		}
		if h.MaxSteps > 0 {
			cfg.MaxSteps = h.MaxSteps
		}
		if h.LoopBound > 0 {
			cfg.LoopBound = h.LoopBound
		}
		for k, v := range params {
			cfg.Params[k] = v
		}
		solverMs := 10000 + 50000*ti
		if h.SolverMs[ti] > 0 {
			solverMs = h.SolverMs[ti]
		}
		nSamples := 6 + 18*ti
		if h.Samples[ti] > 0 {
			nSamples = h.Samples[ti]
		}
		opts := sym.ExploreOpts{Workers: *workers, SolverTimeoutMs: solverMs, Samples: nSamples, Seed: seed, MaxPaths: h.MaxPaths[ti], Deadline: time.Now().Add(time.Duration(*budget*(1+5*ti)) * time.Second)}
		st, err := eng.Explore(sym.Harness{Pkg: fullPkg(h.Pkg), Func: h.Func}, cfg, opts)
		if err != nil {
			broken = append(broken, h.Func+": "+err.Error())
			continue
		}
		st.Params = params
		all = append(all, st)
		if *verbose {
			printStats(st, true)
		}
		// engine health: anything that makes the verdict incomplete
		if n := st.Outcomes["truncated"]; n > 0 {
			broken = append(broken, fmt.Sprintf("%s: %d truncated paths (%v)", h.Func, n, st.Truncated))
		}
		if n := st.Outcomes["unsupported"]; n > 0 {
			broken = append(broken, fmt.Sprintf("%s: %d unsupported paths (%v)", h.Func, n, st.Unsupported))
		}
		if n := st.Outcomes["internal"]; n > 0 {
			broken = append(broken, fmt.Sprintf("%s: %d internal errors (%v)", h.Func, n, st.Internal))
		}
		if st.Inconclusive > 0 {
			broken = append(broken, fmt.Sprintf("%s: %d inconclusive solver answers (%v)", h.Func, st.Inconclusive, st.SolverErrs))
		}
		for g := range st.UninitReads {
			broken = append(broken, fmt.Sprintf("%s: global %s of an init-skipped package was touched but its initialiser was not run (would read as zero)", h.Func, g))
		}
		if st.PathLimitHit {
			broken = append(broken, fmt.Sprintf("%s: path limit or time budget hit before the bound was exhausted", h.Func))
		}
		for _, c := range h.Covers {
			if !st.Covers[c] {
				broken = append(broken, fmt.Sprintf("%s: vacuity: label %q never reached", h.Func, c))
			}
		}
		// violations
		byClass := map[string][]sym.Violation{}
		for _, v := range st.Viols {
			byClass[v.Kind+"|"+v.Label+"|"+v.Known] = append(byClass[v.Kind+"|"+v.Label+"|"+v.Known], v)
		}
		var classes []string
		for c := range byClass {
			classes = append(classes, c)
		}
		sort.Strings(classes)
		for _, c := range classes {
			vs := byClass[c]
			v := vs[0]
			v.Property = id
			if kf, ok := knownIDs[v.Known]; ok && v.Known != "" {
				if !knownSeen[v.Known] {
					knownSeen[v.Known] = true
					note := ""
					if !h.NoReplay && !*noReplay {
						path := filepath.Join(scratch(), fmt.Sprintf("known-%s-%s.json", sanitize(v.Known), h.Func))
						rp := map[string]any{"property": id, "harness": h.Func, "kind": v.Kind, "label": v.Label, "inputs": v.Inputs, "params": params, "extra": v.Extra}
						b, _ := json.Marshal(rp)
						os.WriteFile(path, b, 0o644)
						if ok, why := nativeReplay(eng, h, path, v); ok {
							note = "; reproduced natively"
							validated++
						} else {
							broken = append(broken, fmt.Sprintf("%s: known finding %s did not reproduce natively: %s", h.Func, v.Known, why))
						}
					}
					fmt.Printf("KNOWN-FINDING: property=%s %s (%s; %d paths%s)\n", id, kf.ID+": "+kf.Description, h.Func, len(vs), note)
				}
				continue
			}
			nviol++
			path := filepath.Join(replayDir, fmt.Sprintf("%s-%s-%s-%d.json", id, h.Func, sanitize(v.Label), nviol))
			rp := map[string]any{"property": id, "harness": h.Func, "pkg": fullPkg(h.Pkg), "kind": v.Kind, "label": v.Label, "msg": v.Msg,
				"inputs": v.Inputs, "params": params, "trail": v.Trail, "stack": v.Stack, "schedule": v.Schedule, "observed": v.Observed, "extra": v.Extra, "files": v.Files,
				"paths_with_this_violation": len(vs)}
			b, _ := json.MarshalIndent(rp, "", " ")
			os.WriteFile(path, b, 0o644)
			confirmed := "engine-only"
			if !h.NoReplay && !*noReplay {
				ok, note := nativeReplay(eng, h, path, v)
				if ok {
					confirmed = "reproduced natively"
				} else {
					confirmed = "NOT reproduced natively: " + note
					broken = append(broken, fmt.Sprintf("%s: counter-example %s did not reproduce natively (%s): encoding defect", h.Func, path, note))
					continue
				}
			}
			fmt.Printf("VIOLATION property=%s replay=%s\n", id, path)
			fmt.Printf("  harness=%s kind=%s label=%s (%s; %d paths) %s\n", h.Func, v.Kind, v.Label, confirmed, len(vs), v.Msg)
			exit = 1
		}
		// translator validation on sampled non-violating paths
		if !h.NoReplay && !*noReplay {
			n, errs, nativeFails := validateSamples(eng, h, st, params)
			validated += n
			for _, e := range errs {
				broken = append(broken, h.Func+": translator validation: "+e)
			}
			// A native run that fails an assertion is a concrete failing execution of the real
			// code: it is reported as a violation (and the model that passed the path is flagged).
			seenNative := map[string]bool{}
			for _, nf := range nativeFails {
				if seenNative[nf.Label] {
					continue
				}
				seenNative[nf.Label] = true
				nviol++
				path := filepath.Join(replayDir, fmt.Sprintf("%s-%s-native-%s-%d.json", id, h.Func, sanitize(nf.Label), nviol))
				rp := map[string]any{"property": id, "harness": h.Func, "kind": "assert", "label": nf.Label, "inputs": nf.Inputs, "params": params, "extra": nf.Extra,
					"note": "found by the native validation run of a path the symbolic model passed: the real code (with the real libraries) fails the assertion on these inputs"}
				b, _ := json.MarshalIndent(rp, "", " ")
				os.WriteFile(path, b, 0o644)
				fmt.Printf("VIOLATION property=%s replay=%s\n", id, path)
				fmt.Printf("  harness=%s kind=assert label=%s (native execution of the real code; the symbolic model with its library stubs passed this path) inputs=%v\n", h.Func, nf.Label, nf.Inputs)
				exit = 1
			}
		}
	}
	if len(all) == 0 && len(broken) == 0 {
		broken = append(broken, "no harness ran")
	}
	writeEvidence(def, *tier, seed, all, time.Since(t0), nviol, broken, validated)
	for _, b := range broken {
		fmt.Println("BROKEN:", b)
	}
	if exit == 1 {
		return 1
	}
	if len(broken) > 0 {
		return 2
	}
	var paths, queries int
	for _, st := range all {
		paths += st.Paths
		queries += st.Queries
	}
	fmt.Printf("OK property=%s tier=%s harnesses=%d paths=%d queries=%d known-findings=%d wall=%.1fs\n", id, *tier, len(all), paths, queries, len(knownSeen), time.Since(t0).Seconds())
	return 0
}

func sanitize(s string) string {
	var sb strings.Builder
	for _, c := range s {
		if c >= 'a' && c <= 'z' || c >= 'A' && c <= 'Z' || c >= '0' && c <= '9' || c == '-' || c == '_' {
			sb.WriteRune(c)
		} else {
			sb.WriteByte('_')
		}
	}
	return sb.String()
}

func writeEvidence(def *CheckDef, tier string, seed int64, all []*sym.ExploreStats, wall time.Duration, nviol int, broken []string, validated int) {
	states, transitions := 0, 0
	var samples []any
	queries := map[string]int{}
	var solverS float64
	funcs := map[string]bool{}
	var intr []string
	intrSet := map[string]bool{}
	bounds := map[string]any{}
	libInterp := 0
	perHarness := []map[string]any{}
	initSkips := map[string]string{}
	for _, st := range all {
		states += st.Paths
		transitions += st.Decisions
		for _, s := range st.Samples {
			samples = append(samples, s)
		}
		queries["total"] += st.Queries
		queries["sat"] += st.Sat
		queries["unsat"] += st.Unsat
		queries["unknown"] += st.Unknown
		solverS += st.SolverTime.Seconds()
		repo, lib, in := st.FuncList()
		for _, f := range repo {
			funcs[f] = true
		}
		libInterp += lib
		for _, i := range in {
			if !intrSet[i] {
				intrSet[i] = true
				intr = append(intr, i)
			}
		}
		for k, v := range st.InitSkips {
			initSkips[k] = v
		}
		bounds[st.Harness] = st.Params
		perHarness = append(perHarness, map[string]any{"harness": st.Harness, "paths": st.Paths, "outcomes": st.Outcomes, "decisions_by_kind": st.DecByKind,
			"assert_labels_evaluated": st.Asserts, "covers": keys(st.Covers), "queries": st.Queries, "wall_s": st.Wall.Seconds(), "instructions_interpreted": st.Steps, "params": st.Params})
	}
	var flist []string
	for f := range funcs {
		flist = append(flist, f)
	}
	sort.Strings(flist)
	sort.Strings(intr)
	if len(samples) == 0 {
		samples = append(samples, map[string]any{"note": "no path completed", "broken": broken})
	}
	if states == 0 {
		states = 1
	}
	if transitions == 0 {
		transitions = 1
	}
	ev := map[string]any{
		"property_id": def.ID,
		"tier":        tier,
		"seed":        seed,
		"level":       "model_checking",
		"coverage": map[string]any{
			"states":                         states,
			"transitions":                    transitions,
			"traces_validated_against_impl":  validated,
			"samples":                        samples,
			"explanation":                    "states = completed symbolic paths of the real SSA; transitions = decisions taken (symbolic branches, harness choices, scheduler/crash/fault choices); every branch feasibility and every assertion is an SMT query over all values of the symbolic inputs",
			"functions_encoded":              flist,
			"library_functions_interpreted":  libInterp,
			"intrinsics_and_stubs":           intr,
			"stubs":                          def.Stubs,
			"bounds":                         bounds,
			"outside_claim":                  def.Outside,
			"queries":                        queries,
			"solver_time_s":                  solverS,
			"per_harness":                    perHarness,
			"partially_initialised_packages": initSkips,
			"engine_problems":                broken,
			"solver":                         solverDescription(),
		},
		"assumptions": def.Assumptions,
		"wall_s":      wall.Seconds(),
		"violations":  nviol,
	}
	b, _ := json.MarshalIndent(ev, "", " ")
	os.MkdirAll(filepath.Join(verifDir, "evidence"), 0o755)
	os.WriteFile(filepath.Join(verifDir, "evidence", def.ID+".json"), b, 0o644)
}

// solverDescription names the solver binary the engine actually talks to (VERIF_SOLVER, default
// z3-new) with the version it reports.
func solverDescription() string {
	kind := os.Getenv("VERIF_SOLVER")
	if kind == "" {
		kind = "z3-new"
	}
	bin := kind
	if kind == "cvc5" {
		bin = "cvc5"
	}
	ver := "version unknown"
	if out, err := exec.Command(bin, "--version").Output(); err == nil {
		ver = strings.TrimSpace(strings.SplitN(string(out), "\n", 2)[0])
	}
	return fmt.Sprintf("%s: %s (one process per worker over a pipe, -in -smt2, push/pop per path)", kind, ver)
}

